"""Per-property configuration of /verif/check: Lean modules, harness families (quick n, thorough n), texts."""

PROPS = {
    'C11': {
        'lean': ['Netpol.Properties.C11', 'Netpol.Tie.Consts', 'Netpol.Tie.Procs'],
        'families': [('alg', 3000, 150000), ('exposure', 150, 6000)],
        'accept_props': ['C11'],
        'shard_min': 25,
        'rule': 'operation sequences (1-30 ops over a pool of 4 connection sets; constructors, Union, Intersection, Subtract, Copy, '
                'ReplaceNamedPort) from one PRNG state; after every op all pool members and all pairwise predicates are observed. '
                'non-trivial and distinct = distinct (operation, emptiness of operands, resulting set) triples inside the claimed domain. '
                'exposure family: at the output level, an exposure entry whose structured form is the three full ranges and no name is written All Connections',
        'trusted_base': ['np-guard/models interval.CanonicalSet is modelled (recursive scan instead of binary search), tied by K-diff'],
        'assumptions': ['ports within 1..65535, protocols TCP/UDP/SCTP',
                        'claimed domain: sets built by MakeConnectionSet/GetAllTCPConnections/AddConnection (on a set not in AllowAll form), then Union/Intersection/Subtract/Copy/ReplaceNamedPortWithMatchingPortNum'],
    },
    'C01': {
        'lean': ['Netpol.Properties.C01', 'Netpol.Tie.Procs'],
        'families': [('list', 1500, 60000), ('mut', 300, 10000), ('render', 200, 8000)],
        'accept_props': ['C01'],
        'rule': 'generated worlds (1-3 namespaces, 1-5 workloads/pods, 0-4 NetworkPolicies, optional ANPs/BANP) rendered to a directory and '
                'analysed by the real ConnlistFromDirPath; compared with the model (K-diff) and with the pointwise specification (P). '
                'non-trivial = the analysis succeeded and some pair is restricted; distinct = distinct result relations',
        'assumptions': ['World.Valid inputs: protocols TCP/UDP/SCTP, ports 1..65535, well-formed selectors, IPv4 CIDRs'],
    },
    'C02': {
        'lean': ['Netpol.Properties.C02', 'Netpol.Tie.Consts', 'Netpol.Tie.Procs'],
        'families': [('list', 1500, 60000), ('hist', 400, 20000), ('evalw', 100, 5000)],
        'accept_props': ['C02', 'C15', 'C03'],
        'shard_min': 50,
        'rule': 'as C01, worlds with AdminNetworkPolicies (distinct priorities) and an optional BaselineAdminNetworkPolicy, documents shuffled',
        'assumptions': ['World.Valid inputs; ANP priorities distinct and within 0..1000'],
    },
    'C05': {
        'lean': ['Netpol.Properties.C05', 'Netpol.Tie.Procs'],
        'families': [('list', 1500, 60000), ('exposure', 150, 6000), ('ingress', 400, 15000)],
        'accept_props': ['C05'],
        'shard_min': 50,
        'rule': 'as C01; P is a direct well-formedness checker over the returned []Peer2PeerConnection and []Peer; exposure family: the same checker on the '
                'report produced with the exposure analysis, and on the connection of every exposure entry (ranges canonical, the full set never as three ranges); '
                'ingress family: the same checker on worlds with Services / Ingresses / Routes (the ingress-controller lines are entries of the relation too)',
        'assumptions': ['World.Valid inputs'],
    },
    'C15': {
        'lean': ['Netpol.Properties.C15', 'Netpol.Tie.C15', 'Netpol.Tie.Procs'],
        'families': [('hist', 600, 40000)],
        'shard_min': 100,
        'rule': 'histories of 5-60 InsertObject/DeleteObject/ClearResources/CheckIfAllowed operations over a vocabulary of 3 namespaces, 5 pods '
                '(3 owners), 3 NetworkPolicies, 3 ANPs and the BANP, cache capacity 2/3/10/500, queries repeating earlier queries; '
                'after every operation outcome, cache content (LRU order) and ANP order are compared with the model; every query is also put '
                'to a fresh engine with the same current objects (P). non-trivial = a query that follows an update; distinct by (query, answer, number of objects)',
        'assumptions': ['pods with one owner key have equal container ports is NOT assumed: the generator produces the excluded point too'],
    },
    'C03': {
        'lean': ['Netpol.Properties.C03', 'Netpol.Tie.Procs'],
        'families': [('evalw', 240, 10000), ('hist', 400, 30000)],
        'shard_min': 20,
        'rule': 'evalw: worlds, every ordered pair of pods / 11 probe addresses x 3 protocols x 34 probe ports (every generated port and its neighbours): CheckIfAllowed against '
                'Contains() on the connection set of the list path of the same engine (and the model answers the same queries: K-diff on the answer string); the eval command '
                '(with and without --fail) on pod manifests against list. hist: as C15; every CheckIfAllowed answer (numeric port 1..65535, at least one pod end) is compared with Contains() on the connection set the '
                'list path (allAllowedConnections) computes on a fresh engine holding the same objects',
        'assumptions': ['World.Valid inputs'],
    },
    'C04': {
        'lean': ['Netpol.Properties.C04'],
        'families': [('diff', 500, 20000)],
        'rule': 'pairs of worlds (the second a random edit of the first: objects dropped, workloads/policies added or regenerated, kinds changed; 8% identical) '
                'through the real ConnDiffFromDirPaths; compared with the model of diff.go (K-diff); P recomputes the pointwise diff from the two real list '
                'results at every workload pair and every refined IP segment, and checks diff(B,A)=swap(diff(A,B)) and diff(A,A) has no changes. '
                'non-trivial/distinct = distinct diff results',
        'assumptions': ['World.Valid inputs'],
    },
    'C14': {
        'lean': ['Netpol.Properties.C14'],
        'families': [('edit14', 800, 30000)],
        'rule': 'NetworkPolicy-only worlds and one single-step edit (add rule in a governed direction, add policy over governed / ungoverned pods, '
                'matchLabels<->In, range<->two ranges, CIDR<->halves, policy<->split, explicit<->defaulted policyTypes); both runs through the real code and the model; '
                'P compares the two real results pointwise (inclusion / equality / locality) on the common refinement of the IP partitions',
        'assumptions': ['inputs without admin policies'],
    },
    'C16': {
        'lean': ['Netpol.Properties.C16', 'Netpol.Tie.Consts', 'Netpol.Tie.Procs'],
        'families': [('focus', 500, 20000), ('fmt', 150, 3000)],
        'accept_props': ['C16'],
        'shard_min': 50,
        'rule': 'fmt family: the command itself with a focus (existing, absent, namespace/name, near miss) in every format must succeed wherever the library does. focus family: worlds queried unfocused and with --focusworkload for every workload name, some namespace/name forms, absent names and ingress-controller; '
                'P: the focused result equals the filter of the unfocused one; absent focus gives an empty result with a warning naming it',
        'assumptions': [],
    },
    'C17': {
        'lean': ['Netpol.Properties.C17'],
        'families': [('reexpress', 500, 20000), ('list', 800, 20000)],
        'accept_props': ['C17'],
        'rule': 'worlds and a re-expression of every workload (other kind, other replica count 0..3, 1-3 bare pods sharing a controller owner); '
                'P: pointwise equal connectivity after erasing the [Kind] suffix, same number of peers; list family: one peer per workload of the input',
        'assumptions': [],
    },
    'C19': {
        'lean': ['Netpol.Properties.C19', 'Netpol.Tie.Procs'],
        'families': [('conflict', 1200, 40000), ('list', 500, 10000)],
        'rule': 'valid worlds padded with 0..40 admin policies, one injected conflict (same priority, priority out of range, duplicate ANP / NetworkPolicy name, '
                'second BANP, BANP not named default, pods of one owner with different labels) at a random position, documents shuffled; list and diff (both argument '
                'orders) must fail with the class of a conflict that is present',
        'assumptions': ['sort.Slice is a correct comparison sort (Go library contract)'],
    },
    'C08': {
        'lean': ['Netpol.Properties.C08'],
        'families': [('shuffle', 1200, 20000), ('fmt', 400, 6000)],
        'shard_min': 40,
        'rule': 'worlds (with Services / Ingresses / Routes, conflicting same-priority admin policies, potential peers that differ in `-` / `_` only) and a permutation (documents reordered and spread over 1-4 files, '
                'rules / peers / ports / values of In-NotIn requirements permuted); both layouts must give the identical relation, byte-identical output in every list format with exposure on and off, an empty diff, '
                'the same CheckIfAllowed answers on every pair of pods / probe addresses, and the same output of the eval command; '
                'fmt family: every list format (txt, json, dot, csv, md; exposure on/off, focus) and diff format (txt, csv, md, dot) produced repeatedly by fresh analyzers must be byte-identical',
        'assumptions': ['stdout / returned strings only'],
    },
    'C10': {
        'lean': ['Netpol.Properties.C10', 'Netpol.Tie.Parser'],
        'families': [('ingress', 800, 30000), ('renderi', 250, 8000)],
        'accept_props': ['C10'],
        'rule': 'renderi family: the same world written a second way (no metadata.namespace where it is `default`, for every kind including Routes and Ingresses; kind List; block YAML) must give the same ingress-controller lines. ingress family: worlds with 1-3 Services (selectors from workload labels, named/numbered ports and targetPorts), 0-2 Ingresses (default backend, rule paths; by number / name / '
                'targetPort-only numbers / missing services) and 0-2 Routes (to, alternateBackends, port.targetPort number/name/none); K-diff against the model of ingress_analyzer.go; '
                'P against the Lean specification of the ingress-controller lines and of the blocked warnings',
        'assumptions': ['service port numbers and names unique within a Service', 'the input does not itself define the namespace ingress-controller-ns (the property speaks of a namespace unknown to the input; with a Namespace manifest of that name the tool evaluates the fake pod as a member of the real namespace, with its labels)'],
    },
    'C12': {
        'lean': ['Netpol.Properties.C12', 'Netpol.Tie.C12', 'Netpol.Tie.Parser'],
        'families': [('mut', 1500, 60000), ('render', 300, 8000), ('renderi', 150, 4000)],
        'accept_props': ['C12'],
        'shard_min': 100,
        'rule': 'valid generated worlds (all kinds incl. bare pods with ownerReferences, Services, Ingresses, Routes, ANPs) with 1-2 structural mutations '
                '(drop / null / retype to int, string, bool, list, map / IPv6 or garbage strings, at any field path of any document) or byte-level damaged extra files; '
                'list (plain, exposure with all formats, stop-on-error), diff (both orders, formatted; with stop-on-error; the diff command itself with and without --fail) and the eval command run in-process under recover; '
                'render / renderi families: valid worlds written a second way (namespace left out, kind List, block YAML, ports over several containers) analysed under recover; '
                'non-trivial/distinct = distinct mutation lists that were executed without panic',
        'assumptions': ['panics inside third-party decoders, stack/heap exhaustion and timeouts are only exercised, not modelled'],
    },
    'C13': {
        'lean': ['Netpol.Properties.C13', 'Netpol.Tie.C13'],
        'families': [('baddoc', 700, 30000)],
        'shard_min': 60,
        'rule': 'valid worlds plus 1-3 injected documents of 18 kinds (other kinds, CRD instances, list kinds, documents without kind, truncated / tab-indented / binary / non-YAML text, '
                'empty files, known kinds failing schema conversion) placed in own files (sorting before or after the good file), nested directories or appended to the good file; '
                'with and without stop-on-first-error; list and diff (both orders). Every injection is classified by the real scanner at generation time (ignored / unreadable / malformed) '
                'and the model predicts the outcome from the classes. distinct = distinct (injections, result)',
        'assumptions': ['bytes -> documents is the third-party scanner: observed, not proved'],
    },
    'C18': {
        'lean': ['Netpol.Properties.C18', 'Netpol.Tie.C18'],
        'families': [('fmt', 400, 6000)],
        'shard_min': 40,
        'rule': 'worlds x {5 list formats} x {exposure, focusworkload, --fail} and, for half of them, a second world x {4 diff formats}: the command line run in-process '
                '(hook VerifRun: fresh cobra root per run, stdout captured) and the built binary (first format of every case: exit status and stdout of the real process) '
                'against the library calls with the same options; -f FILE against stdout; ConnlistFromResourceInfos against ConnlistFromDirPath',
        'assumptions': ['cobra flag parsing, the OS and process exit codes are observed, not modelled'],
    },
    'C09': {
        'lean': ['Netpol.Properties.C09'],
        'families': [('fmt', 400, 6000)],
        'shard_min': 40,
        'rule': 'as C18; every list format is parsed back by a format-specific parser (regexp for txt/md/dot, encoding/json, encoding/csv) and compared with the '
                '[]Peer2PeerConnection returned by the API and with every other format; every diff format is checked to hold exactly the added / removed / changed '
                '(dot: also unchanged) entries with both connection values',
        'assumptions': ['CSV/JSON quoting is encoding/csv / encoding/json (third-party)'],
    },
    'C06': {
        'lean': ['Netpol.Properties.C06'],
        'families': [('exposure', 300, 12000), ('fmt', 120, 3000)],
        'shard_min': 25,
        'accept_props': ['C06'],
        'rule': 'NetworkPolicy-only worlds analysed with WithExposureAnalysis (10% also focused); K-diff: base report and exposed peers (protected flags, entries with selectors and connections) '
                'against the model of the exposure analysis; P: the base report equals the run without the flag; every entry is checked against up to 160 hypothetical pods '
                '(label assignments over the selector vocabulary plus a fresh value, existing and new namespaces, named-port declarations) added to the input as real pods: the real engine '
                'without the flag must allow at least the reported connections on the workload side; not-protected iff the side allows everything',
        'assumptions': ['NetworkPolicy-only inputs (the tool disables exposure with admin policies)'],
    },
    'C07': {
        'lean': ['Netpol.Properties.C07'],
        'families': [('exposure', 300, 12000)],
        'shard_min': 25,
        'accept_props': ['C07'],
        'rule': 'as C06; completeness: for every protected workload, direction and hypothetical pod, what the real engine allows on the workload side is contained in the union of the '
                'entire-cluster entry and the entries whose selectors the pod satisfies (named ports as declared by the pod), except for pods matching a selector pair of label '
                'equalities that an existing workload satisfies (the documented omission)',
        'assumptions': ['NetworkPolicy-only inputs'],
    },
}
