"""Per-property configuration of /verif/check: Lean modules, harness families (quick n, thorough n), texts."""

PROPS = {
    'C11': {
        'lean': ['Netpol.Properties.C11'],
        'families': [('alg', 3000, 150000)],
        'rule': 'operation sequences (1-30 ops over a pool of 4 connection sets; constructors, Union, Intersection, Subtract, Copy, '
                'ReplaceNamedPort) from one PRNG state; after every op all pool members and all pairwise predicates are observed. '
                'non-trivial and distinct = distinct (operation, emptiness of operands, resulting set) triples inside the claimed domain',
        'trusted_base': ['np-guard/models interval.CanonicalSet is modelled (recursive scan instead of binary search), tied by K-diff'],
        'assumptions': ['ports within 1..65535, protocols TCP/UDP/SCTP',
                        'claimed domain: sets built by MakeConnectionSet/GetAllTCPConnections/AddConnection (on a set not in AllowAll form), then Union/Intersection/Subtract/Copy'],
    },
}
