"""Per-property configuration of /verif/check: Lean modules, harness families (quick n, thorough n), texts."""

PROPS = {
    'C11': {
        'lean': ['Netpol.Properties.C11'],
        'families': [('alg', 3000, 150000)],
        'rule': 'operation sequences (1-30 ops over a pool of 4 connection sets; constructors, Union, Intersection, Subtract, Copy, '
                'ReplaceNamedPort) from one PRNG state; after every op all pool members and all pairwise predicates are observed. '
                'non-trivial and distinct = distinct (operation, emptiness of operands, resulting set) triples inside the claimed domain',
        'trusted_base': ['np-guard/models interval.CanonicalSet is modelled (recursive scan instead of binary search), tied by K-diff'],
        'assumptions': ['ports within 1..65535, protocols TCP/UDP/SCTP',
                        'claimed domain: sets built by MakeConnectionSet/GetAllTCPConnections/AddConnection (on a set not in AllowAll form), then Union/Intersection/Subtract/Copy'],
    },
    'C01': {
        'lean': ['Netpol.Properties.C01'],
        'families': [('list', 1500, 60000)],
        'rule': 'generated worlds (1-3 namespaces, 1-5 workloads/pods, 0-4 NetworkPolicies, optional ANPs/BANP) rendered to a directory and '
                'analysed by the real ConnlistFromDirPath; compared with the model (K-diff) and with the pointwise specification (P). '
                'non-trivial = the analysis succeeded and some pair is restricted; distinct = distinct result relations',
        'assumptions': ['World.Valid inputs: protocols TCP/UDP/SCTP, ports 1..65535, well-formed selectors, IPv4 CIDRs'],
    },
    'C02': {
        'lean': ['Netpol.Properties.C02'],
        'families': [('list', 1500, 60000)],
        'rule': 'as C01, worlds with AdminNetworkPolicies (distinct priorities) and an optional BaselineAdminNetworkPolicy, documents shuffled',
        'assumptions': ['World.Valid inputs; ANP priorities distinct and within 0..1000'],
    },
    'C05': {
        'lean': ['Netpol.Properties.C05'],
        'families': [('list', 1500, 60000)],
        'rule': 'as C01; P is a direct well-formedness checker over the returned []Peer2PeerConnection and []Peer',
        'assumptions': ['World.Valid inputs'],
    },
    'C15': {
        'lean': ['Netpol.Properties.C15'],
        'families': [('hist', 600, 40000)],
        'shard_min': 100,
        'rule': 'histories of 5-60 InsertObject/DeleteObject/ClearResources/CheckIfAllowed operations over a vocabulary of 3 namespaces, 5 pods '
                '(3 owners), 3 NetworkPolicies, 3 ANPs and the BANP, cache capacity 2/3/10/500, queries repeating earlier queries; '
                'after every operation outcome, cache content (LRU order) and ANP order are compared with the model; every query is also put '
                'to a fresh engine with the same current objects (P). non-trivial = a query that follows an update; distinct by (query, answer, number of objects)',
        'assumptions': ['pods with one owner key have equal container ports is NOT assumed: the generator produces the excluded point too'],
    },
    'C03': {
        'lean': ['Netpol.Properties.C03'],
        'families': [('hist', 600, 40000)],
        'shard_min': 100,
        'rule': 'as C15; every CheckIfAllowed answer (numeric port 1..65535, at least one pod end) is compared with Contains() on the connection set the '
                'list path (allAllowedConnections) computes on a fresh engine holding the same objects',
        'assumptions': ['World.Valid inputs'],
    },
}
