"""level_claimed texts of MANIFEST.json, per property."""
KD = ('Trusted: Lean kernel (axioms per theorem in the evidence: propext, Classical.choice, Quot.sound at most); the hand-written model is tied to the '
      'code by the correspondence check on every run (differential, within the generator space - not proved); harness, generator and canonicaliser are trusted; '
      'third-party semantics (label selectors, cli-runtime scanner, np-guard/models interval/netset, sort, lru) are modelled, see DESIGN.md section 7.')
NOT_APPLICABLE = {}
TEXTS = {
 'C11': {'text': 'Lean 4 theorems about an executable model of ConnectionSet/PortSet/CanonicalSet: every interval-set operation denotes the right set and keeps the canonical form (18 theorems, unbounded); set-denotation and well-formedness of Union/Intersection/Subtract/AddConnection, ContainedIn/Equal/IsEmpty/Contains characterised, full set recognised. The model is tied to the Go code on every run by running the same operation sequences through the real code and the compiled model; an independent bit-set oracle searches for a failing input and checks that operands are neither modified nor aliased.',
         'note': KD + ' Aliasing (pointer sharing) is checked by the oracle only, not proved; printing injectivity is checked, not proved.'},
 'C01': {'text': 'Executable Lean model of the list path (netpol.go, check.go, resources.go, connlist loop) and a pointwise declarative specification of NetworkPolicy semantics; theorems relate the model to the specification; K-diff runs generated directories through the real ConnlistFromDirPath and the model; P evaluates the Lean specification on every peer pair and every elementary port segment and compares the whole relation.',
         'note': KD},
 'C02': {'text': 'As C01 with the AdminNetworkPolicy/BaselineAdminNetworkPolicy layer: model of PolicyConnections bookkeeping (Allowed/Denied/Pass subtraction) against a first-match specification by priority; K-diff and P on worlds with ANPs/BANP in shuffled document order; the eval path is covered through the hist family.',
         'note': KD},
 'C03': {'text': 'Model of the separate rule-walking implementation behind CheckIfAllowed next to the connection-set path; K-diff on histories; P compares every eval answer with Contains() on the connection set computed by the list path for the same objects.',
         'note': KD},
 'C05': {'text': 'Model of the peers list, the IP partition (boundary construction) and the pair loop; P is a direct well-formedness checker of the returned relation (duplicates, self/IP-IP pairs, empty connections, partition, canonical port ranges) plus uniformity of every reported IP range against the specification.',
         'note': KD + ' netset.DisjointIPBlocks is third-party: its equality with the boundary construction is a K-diff obligation.'},
 'C15': {'text': 'The PolicyEngine as a state machine in Lean (init/step over InsertObject, DeleteObject, ClearResources, CheckIfAllowed with the LRU verdict cache keyed by owner); K-diff compares outcome, cache content in LRU order and ANP order after every operation of generated histories; P puts every query to a fresh engine holding the same current objects.',
         'note': KD + ' hashicorp/lru is modelled (Add/Get move to front, eviction at capacity).'},
 'C04': {'text': 'Executable Lean model of diff.go (refinement to common disjoint IP blocks, diff map, merging per (peer, conn1, conn2), classification, new/lost flags) tied by K-diff to the real ConnDiffFromDirPaths on generated pairs; P recomputes the pointwise diff from the two real list results and checks diff(A,A) and the swap law.',
         'note': KD},
 'C08': {'text': 'Order-independence: the model treats every Go map as a list whose order is universally quantified; P runs the real code on permuted / re-partitioned inputs and compares results byte for byte.',
         'note': KD + ' Go map iteration order is sampled by P; formatter determinism (ties under unstable sorts) is partial.'},
 'C14': {'text': 'Additivity, locality and equivalent spellings are corollaries of the refinement of the list model to the order-free pointwise specification; P runs the real code on single-step edits and compares the two reports pointwise on the common refinement of the IP partitions.',
         'note': KD},
 'C16': {'text': 'Model of the focus filter in the pair loop (isPeerFocusWorkload, existsFocusWorkload); K-diff on focused and unfocused runs; P checks that every focused result is exactly the filter of the unfocused result.',
         'note': KD},
 'C17': {'text': 'Model of PodsFromWorkloadObject / createPodOwnersMap / WorkloadPeer naming; K-diff; P compares the real results for re-expressed workloads (kind, replicas, bare pods with a controller owner) after erasing the [Kind] suffix and counts peers per workload.',
         'note': KD},
 'C19': {'text': 'Decision-tree theorem: every correct comparison sort, run with the conflict-detecting less() of sortAdminNetpolsByPriority, reports every tie and every out-of-range priority for every n and every position (Lean, unbounded); insertion-fold checks for duplicate names / BANP; K-diff and P on generated inputs with 0..40 padding policies and the conflict at random positions, for list and diff.',
         'note': KD + ' sort.Slice being a correct deterministic comparison sort that inspects elements only through less() is the Go library contract (trusted).'},
 'C10': {'text': 'Executable Lean model of ingress_analyzer.go and getIngressAllowedConnections, and a Lean specification of the ingress-controller lines (Ingress/Route -> Service -> TCP container ports through targetPort, intersected with the policy verdict for an unlabeled pod in an unknown namespace) and of the blocked warnings; K-diff and P on generated worlds with Services, Ingresses and Routes.',
         'note': KD + ' Route port.targetPort matching follows the tool (first service port whose name, number or targetPort equals it).'},
 'C12': {'text': 'PARTIAL. A theorem cannot exhibit a Go panic; what is proved is that the model of the repository\'s own conversion sites (optional pointer fields of Pod ownerReferences, ReplicationController template, Ingress rule http, host IP parsing, absent objects on delete) has no panic outcome, with the optional fields as Option; the guard table of every dereference of a pointer-typed API field in the anchored files is regenerated from the source on every run and must show a dominating nil check. P mutates valid manifests structurally (drop / null / retype any field) and at byte level and runs list, diff and eval under recover.',
         'note': KD + ' Panics inside the Kubernetes decoders, resource exhaustion and timeouts are outside the model.'},
}
