#!/usr/bin/env python3
"""Regenerates /verif/MANIFEST.json from tools/propcfg.py and tools/manifest_texts.py."""
import json, sys, os
V = os.path.dirname(os.path.dirname(os.path.abspath(__file__)))
sys.path.insert(0, os.path.join(V, 'tools'))
from propcfg import PROPS
from manifest_texts import TEXTS, NOT_APPLICABLE
KGEN_STMT = (' K-gen, statement level: the Go functions of the policy layer and of connectionset.go listed in DESIGN.md 11.4 are rewritten statement by statement into Lean do blocks '
             'on every run (Netpol/Gen/Procs.lean, tools/goextract/procs.go) and Netpol/Tie/Procs proves the model functions equal to them; a changed statement order or '
             'switch case breaks that proof obligation before any case is generated. The translator and its atom tables are trusted.')
props = [json.loads(l) for l in open(os.path.join(V, 'properties.jsonl'))]
checks = []
for p in props:
    pid = p['id']
    if pid not in PROPS or pid in NOT_APPLICABLE:
        continue
    t = TEXTS[pid]
    checks.append({
        'property_id': pid,
        'quick_cmd': './check %s --tier quick' % pid,
        'thorough_cmd': './check %s --tier thorough' % pid,
        'evidence_file': '/verif/evidence/%s.json' % pid,
        'replay_cmd_template': './check %s --replay {path}' % pid,
        'engine': 'lean4-model+kdiff',
        'level_claimed': {'category': 'proof', 'text': t['text'], 'design_ref': t.get('ref', 'DESIGN.md section 6, ' + pid)},
        'level_note': t['note'] + (KGEN_STMT if 'Netpol.Tie.Procs' in PROPS[pid].get('lean', []) else ''),
        'technique': t.get('technique', 'Lean 4 proof over a hand-written model + differential correspondence check (K-diff) + implementation-level oracle (P)'),
    })
claimed = {c['property_id'] for c in checks}
na = [{'property_id': p['id'], 'reason': NOT_APPLICABLE.get(p['id'], 'check not built yet at this commit (work in progress; DESIGN.md section 8 gives the order of work)')}
      for p in props if p['id'] not in claimed]
m = {
    'version': 1,
    'setup_cmd': './setup.sh',
    'hooks': {'guard': 'verif',
              'enable': 'go build -tags verif -overlay /verif/.cache/overlay.json ./pkg/netpol/zz_verifharness (harness and in-package hook sources live in /verif/harness and are mapped into the module by the overlay; no file is added to /repo)',
              'baseline_off_cmd': 'cd /repo && GOFLAGS=-mod=mod GOPROXY=off GOSUMDB=off GOTOOLCHAIN=local go test -vet=off -count=1 ./...',
              'source_commits': [], 'add_only': True},
    'engines': [{'name': 'lean4-model+kdiff', 'path': '/verif/lean, /verif/harness, /verif/check',
                 'serves_properties': sorted(claimed),
                 'kind_free_text': 'Lean 4 theorems over an executable model (lake project Netpol, driver netpol-driver); Go correspondence harness injected with go build -overlay; python orchestrator'}],
    'checks': checks,
    'not_applicable': na,
    'notes': 'see DESIGN.md; fixes of genuine defects are the unguarded "fix:" commits in /repo listed in known_findings.json',
}
json.dump(m, open(os.path.join(V, 'MANIFEST.json'), 'w'), indent=1)
print('claimed', sorted(claimed))
