#!/usr/bin/env python3
"""K-gen: regenerates lean/Netpol/Gen/Facts.lean (+ fingerprints.json) from the Go sources. usage: gen_facts.py REPO OUTDIR
The Lean file is rewritten only when its content changes (so that lake does not rebuild needlessly)."""
import os, subprocess, sys, tempfile, shutil, filecmp
V = os.path.dirname(os.path.dirname(os.path.abspath(__file__)))
repo, out = sys.argv[1], sys.argv[2]
exe = os.path.join(V, '.cache', 'bin', 'goextract')
src = os.path.join(V, 'tools', 'goextract')
env = dict(os.environ, GOFLAGS='-mod=mod', GOPROXY='off', GOSUMDB='off', GOTOOLCHAIN='local')
if not os.path.exists(exe) or os.path.getmtime(exe) < max(os.path.getmtime(os.path.join(src, f)) for f in os.listdir(src)):
    os.makedirs(os.path.dirname(exe), exist_ok=True)
    r = subprocess.run(['go', 'build', '-o', exe, '.'], cwd=src, env=env, stdout=subprocess.PIPE, stderr=subprocess.STDOUT, text=True)
    if r.returncode != 0:
        print('goextract does not build:\n' + r.stdout)
        sys.exit(1)
tmp = tempfile.mkdtemp(prefix='gen-', dir=os.path.join(V, '.cache'))
try:
    r = subprocess.run([exe, repo, tmp], stdout=subprocess.PIPE, stderr=subprocess.STDOUT, text=True)
    if r.returncode != 0:
        print('goextract failed:\n' + r.stdout)
        sys.exit(1)
    os.makedirs(out, exist_ok=True)
    for f in ('Facts.lean', 'Procs.lean', 'fingerprints.json'):
        a, b = os.path.join(tmp, f), os.path.join(out, f)
        if not os.path.exists(b) or not filecmp.cmp(a, b, shallow=False):
            shutil.copy(a, b)
    print('K-gen ok')
finally:
    shutil.rmtree(tmp, ignore_errors=True)
