"""minimal S-expression reader/printer (atoms are str, lists are list)"""

def parse(s):
    stack = [[]]
    cur = []
    def flush():
        if cur:
            stack[-1].append(''.join(cur)); cur.clear()
    for c in s:
        if c == '(':
            flush(); stack.append([])
        elif c == ')':
            flush()
            top = stack.pop(); stack[-1].append(top)
        elif c in ' \t\r\n':
            flush()
        else:
            cur.append(c)
    flush()
    if len(stack) != 1 or len(stack[0]) != 1:
        raise ValueError('unbalanced')
    return stack[0][0]

def dump(t):
    if isinstance(t, list):
        return '(' + ' '.join(dump(x) for x in t) + ')'
    return t
