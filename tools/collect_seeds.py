#!/usr/bin/env python3
"""Copies the verified seeded changes from the scratch worktrees /tmp/seed-<PID>/out/m<N> into /verif/seeded/<PID>-m<N>/
(patch.diff, the demonstration, meta.json extended with what was run here and which check caught it)."""
import os, json, glob, shutil, re, sys
V = os.path.dirname(os.path.dirname(os.path.abspath(__file__)))
BASE = os.environ.get('SEEDBASE', '/tmp/seed')          # SEEDBASE=/tmp/seed3 SEEDTAG=b3- for the third batch
TAG = os.environ.get('SEEDTAG', '')
for d in sorted(glob.glob(BASE + '-C*/out/m*')):
    pid = re.search(r'-(C\d+)/out', d).group(1)
    n = TAG + os.path.basename(d)
    logs = sorted(glob.glob(d + '/check_*.log'))
    if not logs or not os.path.exists(d + '/meta.json'):
        continue
    meta = json.load(open(d + '/meta.json'))
    suite_ok = os.path.exists(d + '/suite_fail.log') and os.path.getsize(d + '/suite_fail.log') == 0
    demo_clean = os.path.exists(d + '/demo_clean.log') and 'FAIL' not in open(d + '/demo_clean.log').read()
    demo_patched = os.path.exists(d + '/demo_patched.log') and 'FAIL' in open(d + '/demo_patched.log').read()
    checks = {}
    for l in logs:
        c = re.search(r'check_(C\d+)\.log', l).group(1)
        txt = open(l).read()
        viol = re.findall(r'^VIOLATION.*$', txt, re.M)
        last = txt.strip().splitlines()[-1] if txt.strip() else ''
        kinds = []
        for v in viol:
            m = re.search(r'replay=(\S+)', v)
            if m and os.path.exists(m.group(1)):
                r = json.load(open(m.group(1)))
                kinds.append(r.get('kind') or ('K-diff: ' + '; '.join(r.get('broken_correspondence', []))[:80]))
        checks[c] = {'caught': bool(viol), 'violation_lines': [re.sub(r'replay=\S+/', 'replay=', v) for v in viol][:4], 'kinds': kinds[:4], 'summary': last}
    meta['verified_here'] = {
        'demo_passes_on_clean_tree': demo_clean, 'demo_fails_with_patch': demo_patched, 'existing_suite_passes_with_patch': suite_ok,
        'commands': ['tools/seedtest.sh %s %s quick  (applies the patch on a scratch worktree at /repo HEAD, go build, demo, go test ./..., VERIF_REPO=<worktree> ./check %s)' % (pid, n[-1:], pid)],
        'repo_head_at_run': os.popen('git -C /repo rev-parse --short HEAD').read().strip(),
        'checks': checks,
    }
    out = os.path.join(V, 'seeded', '%s-%s' % (pid, n))
    os.makedirs(out, exist_ok=True)
    shutil.copy(d + '/patch.diff', out)
    for f in glob.glob(d + '/*_test.go') + glob.glob(d + '/demo/*.go'):
        shutil.copy(f, os.path.join(out, os.path.basename(f) + '.txt'))   # .txt: not part of any Go package here
    json.dump(meta, open(os.path.join(out, 'meta.json'), 'w'), indent=1)
    ok = demo_clean and demo_patched and suite_ok
    print('%s-%s verified=%s caught=%s' % (pid, n, ok, {c: v['caught'] for c, v in checks.items()}))
