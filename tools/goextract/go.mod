module goextract

go 1.21
