// goextract: regenerates Netpol/Gen/*.lean from the Go sources of netpol-analyzer (K-gen, DESIGN.md 4.2).
// go/ast only (no type information): constants, guard tables, call tables, flag wiring, small boolean
// functions translated expression by expression, and fingerprints of the modelled functions.
//
//   goextract REPO OUTDIR
package main

import (
	"bytes"
	"crypto/sha1"
	"encoding/hex"
	"encoding/json"
	"fmt"
	"go/ast"
	"go/parser"
	"go/printer"
	"go/token"
	"os"
	"path/filepath"
	"sort"
	"strings"
)

var fset = token.NewFileSet()

func parseFile(repo, rel string) *ast.File {
	f, err := parser.ParseFile(fset, filepath.Join(repo, rel), nil, parser.ParseComments)
	if err != nil {
		fmt.Fprintln(os.Stderr, "goextract: cannot parse", rel, err)
		os.Exit(1)
	}
	return f
}

func text(n ast.Node) string {
	var b bytes.Buffer
	_ = printer.Fprint(&b, fset, n)
	return strings.Join(strings.Fields(b.String()), " ")
}

func leanStr(s string) string {
	return "\"" + strings.ReplaceAll(strings.ReplaceAll(s, "\\", "\\\\"), "\"", "\\\"") + "\""
}

func funcName(fd *ast.FuncDecl) string {
	if fd.Recv != nil && len(fd.Recv.List) > 0 {
		t := text(fd.Recv.List[0].Type)
		return strings.TrimPrefix(t, "*") + "." + fd.Name.Name
	}
	return fd.Name.Name
}

func funcs(f *ast.File) map[string]*ast.FuncDecl {
	m := map[string]*ast.FuncDecl{}
	for _, d := range f.Decls {
		if fd, ok := d.(*ast.FuncDecl); ok && fd.Body != nil {
			m[funcName(fd)] = fd
		}
	}
	return m
}

// ---------------------------------------------------------------------------------------------
// constants

func constValue(f *ast.File, name string) (string, bool) {
	for _, d := range f.Decls {
		gd, ok := d.(*ast.GenDecl)
		if !ok || (gd.Tok != token.CONST && gd.Tok != token.VAR) {
			continue
		}
		for _, s := range gd.Specs {
			vs := s.(*ast.ValueSpec)
			for i, n := range vs.Names {
				if n.Name == name && i < len(vs.Values) {
					return text(vs.Values[i]), true
				}
			}
		}
	}
	return "", false
}

// ---------------------------------------------------------------------------------------------
// dereference sites of optional (pointer-typed) API fields and their guards

var optionalFields = map[string]bool{"Controller": true, "Template": true, "HTTP": true, "Port": true, "EndPort": true, "Protocol": true,
	"DefaultBackend": true, "Service": true, "Replicas": true, "Parallelism": true, "PortNumber": true, "PortRange": true, "NamedPort": true,
	"Namespaces": true, "Pods": true, "IPBlock": true, "PodSelector": true, "NamespaceSelector": true, "Ports": true, "baselineAdminNetpol": true}

type site struct {
	File, Func, Expr, Use string
	Guarded               bool
}

type guardWalker struct {
	file, fn string
	sites    []site
	imports  map[string]bool // package names of the file: pkg.Type is a type expression, not a field
}

func importNames(f *ast.File) map[string]bool {
	m := map[string]bool{}
	for _, im := range f.Imports {
		p := strings.Trim(im.Path.Value, "\"")
		n := p[strings.LastIndex(p, "/")+1:]
		if im.Name != nil {
			n = im.Name.Name
		}
		m[n] = true
	}
	return m
}

// nilFacts returns the expressions known non-nil when cond is true (pos) / false (neg)
func nilFacts(cond ast.Expr, pos, neg map[string]bool) {
	switch c := cond.(type) {
	case *ast.ParenExpr:
		nilFacts(c.X, pos, neg)
	case *ast.BinaryExpr:
		switch c.Op {
		case token.NEQ:
			if text(c.Y) == "nil" {
				pos[text(c.X)] = true
			}
		case token.EQL:
			if text(c.Y) == "nil" {
				neg[text(c.X)] = true
			}
		case token.LAND:
			nilFacts(c.X, pos, map[string]bool{})
			nilFacts(c.Y, pos, map[string]bool{})
		case token.LOR:
			nilFacts(c.X, map[string]bool{}, neg)
			nilFacts(c.Y, map[string]bool{}, neg)
		}
	}
}

func terminates(b *ast.BlockStmt) bool {
	if b == nil || len(b.List) == 0 {
		return false
	}
	switch s := b.List[len(b.List)-1].(type) {
	case *ast.ReturnStmt:
		return true
	case *ast.BranchStmt:
		return s.Tok == token.CONTINUE || s.Tok == token.BREAK
	case *ast.ExprStmt:
		return strings.Contains(text(s.X), "panic(") || strings.Contains(text(s.X), "os.Exit(")
	}
	return false
}

func copyMap(m map[string]bool) map[string]bool {
	r := map[string]bool{}
	for k := range m {
		r[k] = true
	}
	return r
}

// derefs of optional fields inside an expression (outside nested function literals)
func (w *guardWalker) scanExpr(e ast.Node, known map[string]bool) {
	if e == nil {
		return
	}
	ast.Inspect(e, func(n ast.Node) bool {
		switch x := n.(type) {
		case *ast.FuncLit:
			w.block(x.Body, copyMap(known))
			return false
		case *ast.BinaryExpr:
			if x.Op == token.LAND { // a != nil && use(a)
				w.scanExpr(x.X, known)
				k2 := copyMap(known)
				nilFacts(x.X, k2, map[string]bool{})
				w.scanExpr(x.Y, k2)
				return false
			}
			if x.Op == token.LOR { // a == nil || use(a)
				w.scanExpr(x.X, known)
				k2 := copyMap(known)
				nilFacts(x.X, map[string]bool{}, k2)
				w.scanExpr(x.Y, k2)
				return false
			}
		case *ast.StarExpr:
			if sel, ok := x.X.(*ast.SelectorExpr); ok && optionalFields[sel.Sel.Name] && !w.imports[text(sel.X)] {
				w.sites = append(w.sites, site{w.file, w.fn, text(x.X), "*", known[text(x.X)]})
			}
		case *ast.SelectorExpr:
			if inner, ok := x.X.(*ast.SelectorExpr); ok && optionalFields[inner.Sel.Name] {
				w.sites = append(w.sites, site{w.file, w.fn, text(inner), "." + x.Sel.Name, known[text(inner)]})
			}
		}
		return true
	})
}

func (w *guardWalker) block(b *ast.BlockStmt, known map[string]bool) {
	if b == nil {
		return
	}
	known = copyMap(known)
	for _, st := range b.List {
		w.stmt(st, known)
		// if x == nil { return / continue / break }  makes x known afterwards
		if is, ok := st.(*ast.IfStmt); ok && is.Else == nil && terminates(is.Body) {
			nilFacts(is.Cond, map[string]bool{}, known)
		}
		// an assignment to a guarded expression invalidates the fact
		if as, ok := st.(*ast.AssignStmt); ok {
			for _, l := range as.Lhs {
				delete(known, text(l))
			}
		}
	}
}

func (w *guardWalker) stmt(st ast.Stmt, known map[string]bool) {
	switch s := st.(type) {
	case *ast.IfStmt:
		if s.Init != nil {
			w.stmt(s.Init, known)
		}
		w.scanExpr(s.Cond, known)
		pos, neg := copyMap(known), copyMap(known)
		nilFacts(s.Cond, pos, neg)
		w.block(s.Body, pos)
		switch e := s.Else.(type) {
		case *ast.BlockStmt:
			w.block(e, neg)
		case *ast.IfStmt:
			w.stmt(e, neg)
		}
	case *ast.BlockStmt:
		w.block(s, known)
	case *ast.ForStmt:
		if s.Init != nil {
			w.stmt(s.Init, known)
		}
		w.scanExpr(s.Cond, known)
		w.block(s.Body, known)
	case *ast.RangeStmt:
		w.scanExpr(s.X, known)
		w.block(s.Body, known)
	case *ast.SwitchStmt:
		if s.Init != nil {
			w.stmt(s.Init, known)
		}
		w.scanExpr(s.Tag, known)
		for _, c := range s.Body.List {
			cc := c.(*ast.CaseClause)
			k2 := copyMap(known)
			for _, e := range cc.List {
				w.scanExpr(e, known)
				if s.Tag == nil {
					nilFacts(e, k2, map[string]bool{})
				}
			}
			w.block(&ast.BlockStmt{List: cc.Body}, k2)
		}
	case *ast.TypeSwitchStmt:
		for _, c := range s.Body.List {
			cc := c.(*ast.CaseClause)
			w.block(&ast.BlockStmt{List: cc.Body}, known)
		}
	default:
		w.scanExpr(st, known)
	}
}

// ---------------------------------------------------------------------------------------------
// boolean functions: `return <expr>` translated with a per-function map from Go sub-expressions to Lean variables

type boolFn struct {
	file, name string
	lean       string            // Lean name
	params     []string          // Lean binders
	atoms      map[string]string // Go expression text -> Lean term
}

func transBool(e ast.Expr, atoms map[string]string) (string, error) {
	if t, ok := atoms[text(e)]; ok {
		return t, nil
	}
	switch x := e.(type) {
	case *ast.ParenExpr:
		s, err := transBool(x.X, atoms)
		return "(" + s + ")", err
	case *ast.UnaryExpr:
		if x.Op == token.NOT {
			s, err := transBool(x.X, atoms)
			return "(!" + s + ")", err
		}
	case *ast.BinaryExpr:
		l, err1 := transBool(x.X, atoms)
		r, err2 := transBool(x.Y, atoms)
		if err1 != nil {
			return "", err1
		}
		if err2 != nil {
			return "", err2
		}
		switch x.Op {
		case token.LAND:
			return "(" + l + " && " + r + ")", nil
		case token.LOR:
			return "(" + l + " || " + r + ")", nil
		case token.EQL:
			return "(" + l + " == " + r + ")", nil
		case token.NEQ:
			return "(" + l + " != " + r + ")", nil
		case token.LSS:
			return "decide (" + l + " < " + r + ")", nil
		case token.LEQ:
			return "decide (" + l + " ≤ " + r + ")", nil
		case token.GTR:
			return "decide (" + l + " > " + r + ")", nil
		case token.GEQ:
			return "decide (" + l + " ≥ " + r + ")", nil
		}
	case *ast.BasicLit:
		return x.Value, nil
	case *ast.Ident:
		if x.Name == "true" || x.Name == "false" {
			return x.Name, nil
		}
	}
	return "", fmt.Errorf("untranslatable expression %q", text(e))
}

// ---------------------------------------------------------------------------------------------

func main() {
	if len(os.Args) < 3 {
		fmt.Fprintln(os.Stderr, "usage: goextract REPO OUTDIR")
		os.Exit(2)
	}
	repo, out := os.Args[1], os.Args[2]
	_ = os.MkdirAll(out, 0o755)
	old, _ := filepath.Glob(filepath.Join(out, "*.lean"))
	for _, f := range old {
		_ = os.Remove(f)
	}
	var L strings.Builder
	L.WriteString("/-! REGENERATED from the Go sources of /repo by /verif/tools/goextract on every run. Do not edit. -/\nnamespace Netpol.Gen\n\n")
	broken := []string{}

	// ---- constants
	portset := parseFile(repo, "pkg/netpol/internal/common/portset.go")
	connset := parseFile(repo, "pkg/netpol/internal/common/connectionset.go")
	icommon := parseFile(repo, "pkg/internal/common/netpol_constants.go")
	cache := parseFile(repo, "pkg/netpol/eval/eval_cache.go")
	ncommon := parseFile(repo, "pkg/netpol/internal/common/netpol_commands_common.go")
	intConst := func(f *ast.File, name, lean string) {
		v, ok := constValue(f, name)
		if !ok {
			broken = append(broken, "constant "+name+" not found")
			v = "0"
		}
		fmt.Fprintf(&L, "def %s : Int := %s\n", lean, strings.TrimSpace(v))
	}
	strConst := func(f *ast.File, name, lean string) {
		v, ok := constValue(f, name)
		if !ok {
			broken = append(broken, "constant "+name+" not found")
			v = "\"\""
		}
		fmt.Fprintf(&L, "def %s : String := %s\n", lean, v)
	}
	intConst(portset, "NoPort", "noPort")
	intConst(portset, "minPort", "minPort")
	intConst(portset, "maxPort", "maxPort")
	intConst(icommon, "MinANPPriority", "minANPPriority")
	intConst(icommon, "MaxANPPriority", "maxANPPriority")
	intConst(cache, "defaultCacheSize", "defaultCacheSize")
	intConst(cache, "minCacheSize", "minCacheSize")
	intConst(cache, "maxCacheSize", "maxCacheSize")
	strConst(connset, "allConnsStr", "allConnsStr")
	strConst(connset, "noConnsStr", "noConnsStr")
	strConst(ncommon, "K8sNsNameLabelKey", "k8sNsNameLabelKey")
	strConst(ncommon, "IngressPodName", "ingressPodName")
	strConst(ncommon, "IngressPodNamespace", "ingressPodNamespace")
	if v, ok := constValue(connset, "allProtocols"); ok {
		var ps []string
		for _, p := range []string{"TCP", "UDP", "SCTP"} {
			if strings.Contains(v, "Protocol"+p) {
				ps = append(ps, p)
			}
		}
		// keep the order of the Go slice
		sort.Slice(ps, func(i, j int) bool { return strings.Index(v, "Protocol"+ps[i]) < strings.Index(v, "Protocol"+ps[j]) })
		fmt.Fprintf(&L, "def allProtocols : List String := [%s]\n", strings.Join(mapStr(ps, leanStr), ", "))
	} else {
		broken = append(broken, "allProtocols not found")
	}
	// error severities: constructor name -> (fatal, severe)
	etypes := parseFile(repo, "pkg/manifests/parser/error_types.go")
	L.WriteString("\n/-- parser error constructors: (name, fatal, severe) -/\ndef errorFlags : List (String × Bool × Bool) := [\n")
	var rows []string
	for name, fd := range funcs(etypes) {
		ast.Inspect(fd.Body, func(n ast.Node) bool {
			cl, ok := n.(*ast.CompositeLit)
			if !ok || text(cl.Type) != "FileProcessingError" || len(cl.Elts) != 6 {
				return true
			}
			rows = append(rows, fmt.Sprintf("  (%s, %s, %s)", leanStr(name), text(cl.Elts[4]), text(cl.Elts[5])))
			return true
		})
	}
	sort.Strings(rows)
	L.WriteString(strings.Join(rows, ",\n") + "]\n")

	// ---- cache maintenance table of the PolicyEngine mutators
	res := parseFile(repo, "pkg/netpol/eval/resources.go")
	L.WriteString("\n/-- PolicyEngine mutators: which cache-maintenance calls each one reaches (directly) -/\ndef mutatorCalls : List (String × List String) := [\n")
	rows = nil
	for name, fd := range funcs(res) {
		if !strings.HasPrefix(name, "PolicyEngine.insert") && !strings.HasPrefix(name, "PolicyEngine.delete") && name != "PolicyEngine.ClearResources" {
			continue
		}
		calls := map[string]bool{}
		ast.Inspect(fd.Body, func(n ast.Node) bool {
			if c, ok := n.(*ast.CallExpr); ok {
				t := text(c.Fun)
				for _, k := range []string{"pe.cache.clear", "pe.cache.addPod", "pe.cache.deletePod", "sort.Search", "newEvalCache"} {
					if t == k {
						calls[k] = true
					}
				}
			}
			return true
		})
		var cs []string
		for k := range calls {
			cs = append(cs, leanStr(k))
		}
		sort.Strings(cs)
		rows = append(rows, fmt.Sprintf("  (%s, [%s])", leanStr(strings.TrimPrefix(name, "PolicyEngine.")), strings.Join(cs, ", ")))
	}
	sort.Strings(rows)
	L.WriteString(strings.Join(rows, ",\n") + "]\n")

	// ---- SetResources: the engine calls it makes, in source order (every call whose receiver is pe)
	if fd, ok := funcs(res)["PolicyEngine.SetResources"]; ok {
		var calls []string
		ast.Inspect(fd.Body, func(n ast.Node) bool {
			if c, ok := n.(*ast.CallExpr); ok {
				if t := text(c.Fun); strings.HasPrefix(t, "pe.") {
					calls = append(calls, leanStr(t))
				}
			}
			return true
		})
		fmt.Fprintf(&L, "\n/-- the calls on the engine made by SetResources, in source order -/\ndef setResourcesCalls : List String := [%s]\n", strings.Join(calls, ", "))
	} else {
		broken = append(broken, "PolicyEngine.SetResources not found")
		L.WriteString("\ndef setResourcesCalls : List String := []\n")
	}

	// ---- namespace defaulting of parsed objects: one row per case of the switch in initDefaultNamespace:
	// (case label, the field tested against "", the field assigned) in source order
	if fd, ok := funcs(parseFile(repo, "pkg/manifests/parser/k8sobj.go"))["K8sObject.initDefaultNamespace"]; ok {
		var nsRows []string
		ast.Inspect(fd.Body, func(n ast.Node) bool {
			cc, ok := n.(*ast.CaseClause)
			if !ok {
				return true
			}
			var labels []string
			for _, e := range cc.List {
				labels = append(labels, text(e))
			}
			tested, assigned := "", ""
			for _, st := range cc.Body {
				ifs, ok := st.(*ast.IfStmt)
				if !ok {
					continue
				}
				if be, ok := ifs.Cond.(*ast.BinaryExpr); ok && be.Op == token.EQL && text(be.Y) == `""` {
					tested = text(be.X)
				}
				for _, b := range ifs.Body.List {
					if as, ok := b.(*ast.AssignStmt); ok && len(as.Lhs) == 1 && len(as.Rhs) == 1 && text(as.Rhs[0]) == "metav1.NamespaceDefault" {
						assigned = text(as.Lhs[0])
					}
				}
			}
			nsRows = append(nsRows, fmt.Sprintf("  (%s, %s, %s)", leanStr(strings.Join(labels, ",")), leanStr(tested), leanStr(assigned)))
			return true
		})
		L.WriteString("\n/-- initDefaultNamespace: (kind, field tested against the empty string, field set to `default`) -/\ndef nsDefaulting : List (String × String × String) := [\n" + strings.Join(nsRows, ",\n") + "]\n")
	} else {
		broken = append(broken, "K8sObject.initDefaultNamespace not found")
		L.WriteString("\ndef nsDefaulting : List (String × String × String) := []\n")
	}

	// ---- dereference sites
	anchored := []string{"pkg/netpol/eval/internal/k8s/pod.go", "pkg/netpol/connlist/internal/ingressanalyzer/ingress_analyzer.go",
		"pkg/netpol/eval/check.go", "pkg/netpol/eval/resources.go", "pkg/netpol/eval/internal/k8s/netpol.go",
		"pkg/netpol/eval/internal/k8s/adminnetpol.go", "pkg/netpol/eval/internal/k8s/baseline_admin_netpol.go", "pkg/manifests/parser/k8sobj.go"}
	var sites []site
	for _, rel := range anchored {
		f := parseFile(repo, rel)
		names := []string{}
		fm := funcs(f)
		for n := range fm {
			names = append(names, n)
		}
		sort.Strings(names)
		for _, n := range names {
			w := &guardWalker{file: filepath.Base(rel), fn: n, imports: importNames(f)}
			w.block(fm[n].Body, map[string]bool{})
			sites = append(sites, w.sites...)
		}
	}
	L.WriteString("\n/-- uses that dereference a field that is (or may be) an optional pointer of an API object: (file, function, expression, use, guarded by a dominating nil check) -/\ndef derefSites : List (String × String × String × String × Bool) := [\n")
	rows = nil
	seen := map[string]bool{}
	for _, s := range sites {
		r := fmt.Sprintf("  (%s, %s, %s, %s, %v)", leanStr(s.File), leanStr(s.Func), leanStr(s.Expr), leanStr(s.Use), s.Guarded)
		if !seen[r] {
			seen[r] = true
			rows = append(rows, r)
		}
	}
	L.WriteString(strings.Join(rows, ",\n") + "]\n")

	// ---- flag -> option wiring of the command line
	L.WriteString("\n/-- pkg/cli: per options function the options appended, each with the flag variable guarding it (\"\" = always) -/\ndef cliWiring : List (String × List (String × String)) := [\n")
	rows = nil
	for _, spec := range [][2]string{{"pkg/cli/list.go", "getConnlistOptions"}, {"pkg/cli/diff.go", "getDiffOptions"}} {
		f := parseFile(repo, spec[0])
		fd := funcs(f)[spec[1]]
		if fd == nil {
			broken = append(broken, spec[1]+" not found")
			continue
		}
		var opts []string
		var walk func(stmts []ast.Stmt, guard string)
		collect := func(e ast.Expr, guard string) {
			ast.Inspect(e, func(n ast.Node) bool {
				if c, ok := n.(*ast.CallExpr); ok {
					t := text(c.Fun)
					if strings.Contains(t, ".With") {
						opts = append(opts, fmt.Sprintf("(%s, %s)", leanStr(guard), leanStr(text(c))))
						return false
					}
				}
				return true
			})
		}
		walk = func(stmts []ast.Stmt, guard string) {
			for _, st := range stmts {
				switch s := st.(type) {
				case *ast.IfStmt:
					walk(s.Body.List, text(s.Cond))
				case *ast.AssignStmt:
					for _, r := range s.Rhs {
						collect(r, guard)
					}
				}
			}
		}
		walk(fd.Body.List, "")
		rows = append(rows, fmt.Sprintf("  (%s, [%s])", leanStr(spec[1]), strings.Join(opts, ", ")))
	}
	L.WriteString(strings.Join(rows, ",\n") + "]\n")
	// stdout / file / exit wiring as facts
	listf := parseFile(repo, "pkg/cli/list.go")
	difff := parseFile(repo, "pkg/cli/diff.go")
	rootf := parseFile(repo, "pkg/cli/root.go")
	fact := func(f *ast.File, fn, needle string) bool {
		fd := funcs(f)[fn]
		return fd != nil && strings.Contains(text(fd.Body), needle)
	}
	fmt.Fprintf(&L, "\ndef listPrintsReturnedString : Bool := %v\n", fact(listf, "runListCommand", `fmt.Printf("%s", out)`))
	fmt.Fprintf(&L, "def listWritesSameBytesToFile : Bool := %v\n", fact(listf, "runListCommand", `writeBufToFile(outFile, []byte(out))`))
	fmt.Fprintf(&L, "def diffPrintsReturnedString : Bool := %v\n", fact(difff, "runDiffCommand", `fmt.Printf("%s", out)`))
	fmt.Fprintf(&L, "def diffWritesSameBytesToFile : Bool := %v\n", fact(difff, "runDiffCommand", `writeBufToFile(outFile, []byte(out))`))
	fmt.Fprintf(&L, "def executeExitsOneOnError : Bool := %v\n", fact(rootf, "Execute", `if err != nil { os.Exit(1) }`))

	// ---- boolean functions
	k8snp := "pkg/netpol/eval/internal/k8s/netpol.go"
	bfs := []boolFn{
		{k8snp, "isEmptyPortRange", "isEmptyPortRange", []string{"(start end_ : Int)"}, map[string]string{"start": "start", "end": "end_", "common.NoPort": "noPort"}},
		{"pkg/netpol/eval/internal/k8s/adminnetpol.go", "AdminNetworkPolicy.HasValidPriority", "hasValidPriority", []string{"(prio : Int)"},
			map[string]string{"anp.Spec.Priority": "prio", "pkgcommmon.MinANPPriority": "minANPPriority", "pkgcommmon.MaxANPPriority": "maxANPPriority"}},
		{"pkg/netpol/internal/common/connectionset.go", "ConnectionSet.IsEmpty", "connSetIsEmpty", []string{"(allowAll noProtos : Bool)"},
			map[string]string{"conn.AllowAll": "allowAll", "len(conn.AllowedProtocols) == 0": "noProtos"}},
		{"pkg/netpol/internal/common/portset.go", "PortSet.IsEmpty", "portSetIsEmpty", []string{"(portsEmpty namedEmpty : Bool)"},
			map[string]string{"p.Ports.IsEmpty()": "portsEmpty", "len(p.NamedPorts) == 0": "namedEmpty"}},
		{"pkg/netpol/eval/internal/k8s/policy_connections.go", "PolicyConnections.IsEmpty", "policyConnsIsEmpty", []string{"(allowedEmpty deniedEmpty passEmpty : Bool)"},
			map[string]string{"pc.AllowedConns.IsEmpty()": "allowedEmpty", "pc.DeniedConns.IsEmpty()": "deniedEmpty", "pc.PassConns.IsEmpty()": "passEmpty"}},
		{"pkg/netpol/eval/check.go", "isPodToItself", "isPodToItself", []string{"(p1IsPod p2IsPod : Bool)", "(name1 name2 ns1 ns2 : String)", "(fake1 fake2 : Bool)"},
			map[string]string{"peer1.PeerType() == k8s.PodType": "p1IsPod", "peer2.PeerType() == k8s.PodType": "p2IsPod",
				"peer1.GetPeerPod().Name": "name1", "peer2.GetPeerPod().Name": "name2", "peer1.GetPeerPod().Namespace": "ns1", "peer2.GetPeerPod().Namespace": "ns2",
				"peer1.GetPeerPod().FakePod": "fake1", "peer2.GetPeerPod().FakePod": "fake2"}},
		{"pkg/netpol/connlist/connlist.go", "ConnlistAnalyzer.isPeerFocusWorkload", "isPeerFocusWorkload", []string{"(focus name nsName : String)", "(isIP : Bool)"},
			map[string]string{"ca.focusWorkload": "focus", "peer.Name()": "name", "getPeerNsNameFormat(peer)": "nsName", "peer.IsPeerIPType()": "isIP"}},
		{"pkg/netpol/internal/common/portset.go", "PortSet.ContainedIn", "", nil, nil}, // fingerprint only
	}
	L.WriteString("\n")
	for _, bf := range bfs {
		if bf.lean == "" {
			continue
		}
		f := parseFile(repo, bf.file)
		fd := funcs(f)[bf.name]
		var expr ast.Expr
		if fd != nil && len(fd.Body.List) == 1 {
			if r, ok := fd.Body.List[0].(*ast.ReturnStmt); ok && len(r.Results) == 1 {
				expr = r.Results[0]
			}
		}
		if expr == nil {
			broken = append(broken, "function "+bf.name+" is no longer a single return statement")
			fmt.Fprintf(&L, "/-- UNTRANSLATABLE: %s -/\ndef %s_untranslatable : Bool := true\n", bf.name, bf.lean)
			continue
		}
		s, err := transBool(expr, bf.atoms)
		if err != nil {
			broken = append(broken, "function "+bf.name+": "+err.Error())
			fmt.Fprintf(&L, "/-- UNTRANSLATABLE: %s: %s -/\ndef %s_untranslatable : Bool := true\n", bf.name, strings.ReplaceAll(err.Error(), "-/", "- /"), bf.lean)
			continue
		}
		fmt.Fprintf(&L, "/-- `%s`: %s -/\ndef %s %s : Bool := %s\n", bf.name, strings.ReplaceAll(text(expr), "-/", "- /"), bf.lean, strings.Join(bf.params, " "), s)
	}
	L.WriteString("\n/-- what the extractor could not regenerate (a broken tie, reported by the check) -/\ndef broken : List String := [")
	L.WriteString(strings.Join(mapStr(broken, leanStr), ", "))
	L.WriteString("]\n\nend Netpol.Gen\n")
	if err := os.WriteFile(filepath.Join(out, "Facts.lean"), []byte(L.String()), 0o644); err != nil {
		fmt.Fprintln(os.Stderr, err)
		os.Exit(1)
	}

	// ---- fingerprints of the modelled functions (evidence and effort scaling; never an alarm)
	modelled := map[string][]string{
		"pkg/netpol/internal/common/connectionset.go":                            nil,
		"pkg/netpol/internal/common/portset.go":                                  nil,
		"pkg/netpol/eval/internal/k8s/netpol.go":                                 nil,
		"pkg/netpol/eval/internal/k8s/adminnetpol.go":                            nil,
		"pkg/netpol/eval/internal/k8s/baseline_admin_netpol.go":                  nil,
		"pkg/netpol/eval/internal/k8s/policy_connections.go":                     nil,
		"pkg/netpol/eval/internal/k8s/pod.go":                                    nil,
		"pkg/netpol/eval/internal/k8s/peer.go":                                   nil,
		"pkg/netpol/eval/internal/k8s/representative_selectors.go":               nil,
		"pkg/netpol/eval/check.go":                                               nil,
		"pkg/netpol/eval/check_eval.go":                                          nil,
		"pkg/netpol/eval/resources.go":                                           nil,
		"pkg/netpol/eval/eval_cache.go":                                          nil,
		"pkg/netpol/eval/exposure.go":                                            nil,
		"pkg/netpol/eval/peer.go":                                                nil,
		"pkg/netpol/connlist/connlist.go":                                        nil,
		"pkg/netpol/connlist/exposure_map.go":                                    nil,
		"pkg/netpol/connlist/internal/ingressanalyzer/ingress_analyzer.go":       nil,
		"pkg/netpol/diff/diff.go":                                                nil,
		"pkg/cli/list.go":                                                        nil,
		"pkg/cli/diff.go":                                                        nil,
		"pkg/cli/evaluate.go":                                                    nil,
	}
	fp := map[string]string{}
	for rel := range modelled {
		f := parseFile(repo, rel)
		for n, fd := range funcs(f) {
			h := sha1.Sum([]byte(text(fd.Body)))
			fp[filepath.Base(rel)+":"+n] = hex.EncodeToString(h[:])[:12]
		}
	}
	genProcs(repo, out)
	b, _ := json.MarshalIndent(fp, "", " ")
	_ = os.WriteFile(filepath.Join(out, "fingerprints.json"), b, 0o644)
}

func mapStr(l []string, f func(string) string) []string {
	r := make([]string, len(l))
	for i, x := range l {
		r[i] = f(x)
	}
	return r
}
