// K-gen, second part: a statement-level translator for small procedures of the policy layer.
// A Go function body built from assignments, `x, err := call; if err != nil { return …, err }`, in-place
// ConnectionSet updates (`a.Subtract(b)`, `a.Union(b)`, `a.Intersection(b)`), `if` / `switch` / `return` is rewritten
// statement by statement into a Lean `do` block over `Except Err` whose primitives are the model's ConnSet / PolicyConns
// operations; calls into other (modelled) functions are parameters of the generated definition. `Netpol/Tie/Procs.lean`
// proves each generated definition equal to the hand-written model function. Anything outside the subset makes the
// function "untranslatable": it is listed in `Gen.Procs.broken` and `Tie.Procs.extractor_complete` stops checking.
package main

import (
	"fmt"
	"go/ast"
	"go/token"
	"os"
	"path/filepath"
	"sort"
	"strings"
)

type procSpec struct {
	file, fn, lean string
	sig            string            // Lean binders and result type
	muts           []string          // parameters updated in place (re-bound as `let mut`)
	atoms          map[string]string // Go expression text -> Lean term
	calls          map[string]string // Go call text (the right-hand side of `…, err := call`) -> Lean term of type Except Err _
	stmts          map[string]string // Go statement text -> Lean statement (verbatim)
	errs           map[string]string // Go error expression text -> Lean Err constructor
	locals         []string          // Go variables bound by a verbatim statement of `stmts`
	carry          []string          // variables of the enclosing scope a loop body updates through a verbatim statement
	fields         map[string]string // Go field name -> Lean field name, for fields of loop elements
	loopElem       string            // element type of a first-match loop (translated as a structural recursion over the list)
	protoMaps      map[string]string // Go expression of a map keyed by protocol (e.g. conn.AllowedProtocols) -> Lean variable of type ConnSet
	nameMaps       map[string]string // Go expression of a map[string]bool used as a set of names (p.NamedPorts) -> Lean place var.field : List String
	retCalls       map[string]string // Go call text in `return call(...)` (the callee returns value and error) -> Lean term
	result         string            // value of `return nil` (error-only functions) and of falling off the end
	pure           bool              // no error result: `return x` is `return x`
}

type procTr struct {
	sp       *procSpec
	decl     map[string]bool
	aux      []string // auxiliary definitions (loops) emitted before the function
	loopCall string   // inside a first-match loop: the recursive call on the rest of the list
	nloops   int
	alias    map[string][2]string // range value variable -> (Lean ConnSet variable, Lean key): a pointer into the map entry
	idxLoop  map[string]string    // index variable of `for i := range L` -> text of L: `L[i]` is the element
}

var fieldNames = map[string]string{"AllowedConns": "allowed", "DeniedConns": "denied", "PassConns": "pass", "AllowAll": "allowAll", "Ports": "ports"}
var updMethods = map[string]string{"Subtract": "subtract", "Union": "union", "Intersection": "inter"}
var pureMethods = map[string]string{"Copy": "copy", "IsEmpty": "isEmpty", "DeterminesAllConns": "determinesAll", "IsAll": "isAll"}
var pureMethods1 = map[string]string{"ContainedIn": "containedIn", "Equal": "equal"}                                    // one argument, no effect
var entryMethods = map[string]string{"Intersection": "inter", "Union": "union", "subtract": "subtract", "Subtract": "subtract"} // in-place updates of a map entry

func leanIdent(s string) string {
	switch s {
	case "end", "from", "to", "then", "do", "at", "in":
		return s + "_"
	}
	return s
}

func norm(s string) string { return strings.Join(strings.Fields(s), " ") }

func (t *procTr) expr(e ast.Expr) (string, error) {
	if a, ok := t.sp.atoms[norm(text(e))]; ok {
		return a, nil
	}
	switch x := e.(type) {
	case *ast.ParenExpr:
		s, err := t.expr(x.X)
		return "(" + s + ")", err
	case *ast.UnaryExpr:
		if x.Op == token.NOT {
			s, err := t.expr(x.X)
			return "(!" + s + ")", err
		}
	case *ast.BinaryExpr:
		l, err := t.expr(x.X)
		if err != nil {
			return "", err
		}
		r, err := t.expr(x.Y)
		if err != nil {
			return "", err
		}
		switch x.Op {
		case token.LAND:
			return "(" + l + " && " + r + ")", nil
		case token.LOR:
			return "(" + l + " || " + r + ")", nil
		case token.EQL:
			return "(" + l + " == " + r + ")", nil
		case token.NEQ:
			return "(" + l + " != " + r + ")", nil
		case token.LSS:
			return "decide (" + l + " < " + r + ")", nil
		case token.LEQ:
			return "decide (" + l + " ≤ " + r + ")", nil
		case token.GTR:
			return "decide (" + l + " > " + r + ")", nil
		case token.GEQ:
			return "decide (" + l + " ≥ " + r + ")", nil
		}
	case *ast.BasicLit:
		return x.Value, nil
	case *ast.Ident:
		if x.Name == "true" || x.Name == "false" {
			return x.Name, nil
		}
		if t.decl[x.Name] {
			return leanIdent(x.Name), nil
		}
	case *ast.SelectorExpr:
		if f, ok := fieldNames[x.Sel.Name]; ok {
			s, err := t.expr(x.X)
			return s + "." + f, err
		}
		if f, ok := t.sp.fields[x.Sel.Name]; ok {
			s, err := t.expr(x.X)
			return s + "." + f, err
		}
	case *ast.TypeAssertExpr:
		return t.expr(x.X) // the model has one peer type
	case *ast.CallExpr:
		if sel, ok := x.Fun.(*ast.SelectorExpr); ok && len(x.Args) == 0 {
			if m, ok := pureMethods[sel.Sel.Name]; ok {
				s, err := t.expr(sel.X)
				return s + "." + m, err
			}
		}
		if sel, ok := x.Fun.(*ast.SelectorExpr); ok && len(x.Args) == 1 {
			if m, ok := pureMethods1[sel.Sel.Name]; ok {
				s, err := t.expr(sel.X)
				if err != nil {
					return "", err
				}
				a, err := t.expr(x.Args[0])
				return "(" + s + "." + m + " " + a + ")", err
			}
		}
	case *ast.IndexExpr:
		if id, ok := x.Index.(*ast.Ident); ok && t.idxLoop[id.Name] != "" && t.idxLoop[id.Name] == norm(text(x.X)) {
			return leanIdent(id.Name), nil // `L[i]` inside `for i := range L`: the element (the loop variable of the translation)
		}
		if pl, ok := t.sp.nameMaps[norm(text(x.X))]; ok { // membership in a set of names
			k, err := t.expr(x.Index)
			return "(" + pl + ".contains " + k + ")", err
		}
		// an entry of a map keyed by protocol, read where the code knows it is present (a missing entry would be a nil dereference)
		if cs, ok := t.sp.protoMaps[norm(text(x.X))]; ok {
			k, err := t.expr(x.Index)
			return "((" + cs + ".get " + k + ").getD default)", err
		}
	}
	return "", fmt.Errorf("untranslatable expression %q", norm(text(e)))
}

// assign writes `place := value` for a variable or a field of a variable
func (t *procTr) assign(lhs ast.Expr, val string, define bool, ind string) (string, error) {
	switch x := lhs.(type) {
	case *ast.Ident:
		if define || !t.decl[x.Name] {
			t.decl[x.Name] = true
			return ind + "let mut " + leanIdent(x.Name) + " := " + val, nil
		}
		return ind + leanIdent(x.Name) + " := " + val, nil
	case *ast.SelectorExpr:
		if f, ok := fieldNames[x.Sel.Name]; ok {
			if id, ok := x.X.(*ast.Ident); ok && t.decl[id.Name] {
				v := leanIdent(id.Name)
				return ind + v + " := { " + v + " with " + f + " := " + val + " }", nil
			}
		}
	}
	return "", fmt.Errorf("untranslatable assignment target %q", norm(text(lhs)))
}

func isErrCheck(st ast.Stmt) bool {
	is, ok := st.(*ast.IfStmt)
	if !ok || is.Init != nil || is.Else != nil || norm(text(is.Cond)) != "err != nil" || len(is.Body.List) != 1 {
		return false
	}
	r, ok := is.Body.List[0].(*ast.ReturnStmt)
	return ok && len(r.Results) > 0 && norm(text(r.Results[len(r.Results)-1])) == "err"
}

func (t *procTr) block(list []ast.Stmt, ind string) ([]string, error) {
	var out []string
	saved := map[string]bool{}
	for k, v := range t.decl {
		saved[k] = v
	}
	defer func() { t.decl = saved }()
	for i := 0; i < len(list); i++ {
		st := list[i]
		if s, ok := t.sp.stmts[norm(text(st))]; ok {
			out = append(out, ind+s)
			continue
		}
		switch x := st.(type) {
		case *ast.DeclStmt:
			gd, ok := x.Decl.(*ast.GenDecl)
			if !ok || gd.Tok != token.VAR {
				return nil, fmt.Errorf("untranslatable declaration %q", norm(text(st)))
			}
			for _, sp := range gd.Specs {
				if vs, ok := sp.(*ast.ValueSpec); !ok || len(vs.Values) != 0 {
					return nil, fmt.Errorf("untranslatable declaration %q", norm(text(st)))
				}
			} // `var x T`: bound at its first assignment
		case *ast.AssignStmt:
			if len(x.Rhs) != 1 {
				return nil, fmt.Errorf("untranslatable assignment %q", norm(text(st)))
			}
			if ls, done, err := t.commaOk(x, ind); done || err != nil {
				if err != nil {
					return nil, err
				}
				out = append(out, ls...)
				continue
			}
			if ix, ok := x.Lhs[0].(*ast.IndexExpr); ok && len(x.Lhs) == 1 && x.Tok == token.ASSIGN {
				if pl, ok := t.sp.nameMaps[norm(text(ix.X))]; ok { // S[k] = true (or the value of another such set: always true)
					k, err := t.expr(ix.Index)
					if err != nil {
						return nil, err
					}
					out = append(out, setPlace(pl, "sinsert "+k+" "+pl, ind))
					continue
				}
				if cs, ok := t.sp.protoMaps[norm(text(ix.X))]; ok { // M[k] = v
					k, err := t.expr(ix.Index)
					if err != nil {
						return nil, err
					}
					v, err := t.expr(x.Rhs[0])
					if err != nil {
						return nil, err
					}
					out = append(out, ind+cs+" := "+cs+".set "+k+" (some "+v+")") // a pointer taken before keeps the old object
					continue
				}
			}
			last := norm(text(x.Lhs[len(x.Lhs)-1]))
			if last == "err" && len(x.Lhs) >= 2 {
				call, ok := t.sp.calls[norm(text(x.Rhs[0]))]
				if !ok {
					return nil, fmt.Errorf("call %q is not a parameter of the translation", norm(text(x.Rhs[0])))
				}
				if i+1 >= len(list) || !isErrCheck(list[i+1]) {
					return nil, fmt.Errorf("the error of %q is not returned at once", norm(text(x.Rhs[0])))
				}
				i++
				var names []string
				fresh := false
				for _, l := range x.Lhs[:len(x.Lhs)-1] {
					id, ok := l.(*ast.Ident)
					if !ok {
						return nil, fmt.Errorf("untranslatable assignment target %q", norm(text(l)))
					}
					if !t.decl[id.Name] {
						fresh = true
					}
					names = append(names, leanIdent(id.Name))
				}
				if fresh {
					for _, l := range x.Lhs[:len(x.Lhs)-1] {
						t.decl[l.(*ast.Ident).Name] = true
					}
					if len(names) == 1 {
						out = append(out, ind+"let mut "+names[0]+" ← "+call)
					} else {
						out = append(out, ind+"let mut ("+strings.Join(names, ", ")+") ← "+call)
					}
				} else if len(names) == 1 {
					out = append(out, ind+names[0]+" ← "+call)
				} else {
					return nil, fmt.Errorf("untranslatable re-assignment %q", norm(text(st)))
				}
				continue
			}
			if len(x.Lhs) != 1 {
				return nil, fmt.Errorf("untranslatable assignment %q", norm(text(st)))
			}
			v, err := t.expr(x.Rhs[0])
			if err != nil {
				return nil, err
			}
			s, err := t.assign(x.Lhs[0], v, x.Tok == token.DEFINE, ind)
			if err != nil {
				return nil, err
			}
			out = append(out, s)
		case *ast.IncDecStmt:
			v, err := t.expr(x.X)
			if err != nil {
				return nil, err
			}
			op := " + 1"
			if x.Tok == token.DEC {
				op = " - 1"
			}
			s, err := t.assign(x.X, v+op, false, ind)
			if err != nil {
				return nil, err
			}
			out = append(out, s)
		case *ast.ExprStmt:
			call, ok := x.X.(*ast.CallExpr)
			if !ok {
				return nil, fmt.Errorf("untranslatable statement %q", norm(text(st)))
			}
			if id, ok := call.Fun.(*ast.Ident); ok && id.Name == "delete" && len(call.Args) == 2 {
				if pl, ok := t.sp.nameMaps[norm(text(call.Args[0]))]; ok {
					k, err := t.expr(call.Args[1])
					if err != nil {
						return nil, err
					}
					out = append(out, setPlace(pl, "serase "+k+" "+pl, ind))
					continue
				}
				cs, ok := t.sp.protoMaps[norm(text(call.Args[0]))]
				if !ok {
					return nil, fmt.Errorf("untranslatable delete %q", norm(text(st)))
				}
				k, err := t.expr(call.Args[1])
				if err != nil {
					return nil, err
				}
				out = append(out, ind+cs+" := "+cs+".set "+k+" none") // a pointer taken before keeps the removed object
				continue
			}
			if sel, ok := call.Fun.(*ast.SelectorExpr); ok && len(call.Args) == 1 && entryMethods[sel.Sel.Name] != "" {
				cs, k := "", ""
				if ix, ok := sel.X.(*ast.IndexExpr); ok {
					if c, ok := t.sp.protoMaps[norm(text(ix.X))]; ok {
						kk, err := t.expr(ix.Index)
						if err != nil {
							return nil, err
						}
						cs, k = c, kk
					}
				} else if id, ok := sel.X.(*ast.Ident); ok {
					if al, ok := t.alias[id.Name]; ok {
						cs, k = al[0], al[1]
					}
				}
				if cs != "" { // an update through a pointer into the map: the entry changes
					arg, err := t.expr(call.Args[0])
					if err != nil {
						return nil, err
					}
					out = append(out, ind+cs+" := "+cs+".set "+k+" (some ((("+cs+".get "+k+").getD default)."+entryMethods[sel.Sel.Name]+" "+arg+"))")
					out = append(out, t.refresh(cs, k, ind)...)
					continue
				}
			}
			sel, ok := call.Fun.(*ast.SelectorExpr)
			if !ok || len(call.Args) != 1 || updMethods[sel.Sel.Name] == "" {
				return nil, fmt.Errorf("untranslatable call statement %q", norm(text(st)))
			}
			recv, err := t.expr(sel.X)
			if err != nil {
				return nil, err
			}
			arg, err := t.expr(call.Args[0])
			if err != nil {
				return nil, err
			}
			s, err := t.assign(sel.X, recv+"."+updMethods[sel.Sel.Name]+" "+arg, false, ind)
			if err != nil {
				return nil, err
			}
			out = append(out, s)
		case *ast.IfStmt:
			ls, err := t.ifStmt(x, ind)
			if err != nil {
				return nil, err
			}
			out = append(out, ls...)
		case *ast.SwitchStmt:
			if x.Init != nil {
				return nil, fmt.Errorf("untranslatable switch %q", norm(text(x.Init)))
			}
			tag := ""
			if x.Tag != nil {
				s, err := t.expr(x.Tag)
				if err != nil {
					return nil, err
				}
				tag = s
			}
			var clauses, dflt []*ast.CaseClause
			for _, c := range x.Body.List {
				cc := c.(*ast.CaseClause)
				if cc.List == nil {
					dflt = append(dflt, cc)
				} else {
					clauses = append(clauses, cc)
				}
			}
			for k, cc := range clauses {
				var conds []string
				for _, ce := range cc.List {
					s, err := t.expr(ce)
					if err != nil {
						return nil, err
					}
					if tag != "" {
						s = "(" + tag + " == " + s + ")"
					}
					conds = append(conds, s)
				}
				kw := "if "
				if k > 0 {
					kw = "else if "
				}
				out = append(out, ind+kw+strings.Join(conds, " || ")+" then")
				body, err := t.body(cc.Body, ind+"  ")
				if err != nil {
					return nil, err
				}
				out = append(out, body...)
			}
			if len(clauses) == 0 {
				return nil, fmt.Errorf("switch without cases")
			}
			out = append(out, ind+"else")
			var db []ast.Stmt
			if len(dflt) > 0 {
				db = dflt[0].Body
			}
			body, err := t.body(db, ind+"  ")
			if err != nil {
				return nil, err
			}
			out = append(out, body...)
		case *ast.RangeStmt:
			ri, err := t.rangeOf(x)
			if err != nil {
				return nil, err
			}
			// search loop: `for _, v := range L { if C(v) { return R } }`  =  `if L.any (fun v => C v) then return R`
			var is *ast.IfStmt
			var rs *ast.ReturnStmt
			if ri.guard == "" && len(x.Body.List) == 1 {
				if y, ok := x.Body.List[0].(*ast.IfStmt); ok && y.Init == nil && y.Else == nil && len(y.Body.List) == 1 {
					is = y
					rs, _ = y.Body.List[0].(*ast.ReturnStmt)
				}
			}
			if rs == nil {
				ls, err := t.foldLoop(x, ri, ind)
				if err == nil {
					out = append(out, ls...)
					continue
				}
				if t.sp.loopElem == "" || t.loopCall != "" {
					return nil, err
				}
				// first-match loop: the body returns a value or goes on with the next element; the statements after the loop are
				// what happens when the list is exhausted. Emitted as a structural recursion over the list.
				t.nloops++
				name := fmt.Sprintf("%s_loop%d", t.sp.lean, t.nloops)
				colon := strings.LastIndex(t.sp.sig, ") :")
				binders, rty := t.sp.sig[:colon+1], strings.TrimSpace(t.sp.sig[colon+3:])
				var args []string
				for _, b := range strings.Split(binders, ")") {
					b = strings.TrimSpace(strings.TrimPrefix(strings.TrimSpace(b), "("))
					if i := strings.Index(b, ":"); i > 0 {
						args = append(args, strings.Fields(b[:i])...)
					}
				}
				rest, err2 := t.body(list[i+1:], "    ")
				if err2 != nil {
					return nil, err2
				}
				if n := len(list[i+1:]); n == 0 {
					return nil, fmt.Errorf("first-match loop without a result after it")
				}
				vs := leanIdent(ri.v) + "_rest"
				t.loopCall = "return (← " + name + " " + strings.Join(args, " ") + " " + vs + ")"
				body, err2 := t.loopBody(x, ri, "    ")
				call := t.loopCall
				t.loopCall = ""
				if err2 != nil {
					return nil, err2
				}
				a := []string{"def " + name + " " + binders + " : List " + t.sp.loopElem + " → " + rty, "  | [] => do"}
				a = append(a, rest...)
				a = append(a, "  | "+leanIdent(ri.v)+" :: "+vs+" => do")
				a = append(a, body...)
				a = append(a, "    "+call)
				t.aux = append(t.aux, strings.Join(a, "\n")+"\n")
				out = append(out, ind+"return (← "+name+" "+strings.Join(args, " ")+" "+ri.lst+")")
				return out, nil
			}
			t.decl[ri.v] = true
			c, err := t.expr(is.Cond)
			delete(t.decl, ri.v)
			if err != nil {
				return nil, err
			}
			r, err := t.ret(rs)
			if err != nil {
				return nil, err
			}
			out = append(out, ind+"if "+ri.lst+".any (fun "+leanIdent(ri.v)+" => "+c+") then", ind+"  "+r)
		case *ast.ReturnStmt:
			s, err := t.ret(x)
			if err != nil {
				return nil, err
			}
			out = append(out, ind+s)
		case *ast.BranchStmt:
			if x.Tok != token.CONTINUE || t.loopCall == "" || x.Label != nil {
				return nil, fmt.Errorf("untranslatable branch statement %q", norm(text(st)))
			}
			out = append(out, ind+t.loopCall)
		default:
			return nil, fmt.Errorf("untranslatable statement %q", norm(text(st)))
		}
	}
	return out, nil
}

// foldLoop: `for _, v := range L { BODY }` where BODY neither breaks, continues nor returns a value (it may return an error)
// is the monadic left fold of BODY over L; the state of the fold is the variables of the enclosing scope BODY assigns to.
func (t *procTr) foldLoop(x *ast.RangeStmt, ri *rangeInfo, ind string) ([]string, error) {
	var bad error
	hasContinue := false
	var carried []string
	seen := map[string]bool{}
	root := func(e ast.Expr) string {
		for {
			switch y := e.(type) {
			case *ast.IndexExpr:
				e = y.X
			case *ast.SelectorExpr:
				e = y.X
			case *ast.Ident:
				return y.Name
			default:
				return ""
			}
		}
	}
	note := func(e ast.Expr) {
		if n := root(e); n != "" && n != "err" && t.decl[n] && !seen[n] {
			seen[n] = true
			carried = append(carried, n)
		}
	}
	ast.Inspect(x.Body, func(n ast.Node) bool {
		switch y := n.(type) {
		case *ast.BranchStmt:
			if y.Tok != token.CONTINUE || y.Label != nil {
				bad = fmt.Errorf("loop with %s", y.Tok)
			}
			hasContinue = true
		case *ast.ReturnStmt:
			last := ""
			if len(y.Results) > 0 {
				last = norm(text(y.Results[len(y.Results)-1]))
			}
			if _, ok := t.sp.errs[last]; !ok && last != "err" && !strings.Contains(last, "err.Error()") {
				bad = fmt.Errorf("loop body returns a value: %q", norm(text(y)))
			}
		case *ast.AssignStmt:
			if y.Tok == token.ASSIGN {
				for _, l := range y.Lhs {
					note(l)
				}
			}
		case *ast.IncDecStmt:
			note(y.X)
		case *ast.ExprStmt:
			if c, ok := y.X.(*ast.CallExpr); ok {
				_, verbatim := t.sp.stmts[norm(text(y))]
				if sel, ok := c.Fun.(*ast.SelectorExpr); ok && (updMethods[sel.Sel.Name] != "" || entryMethods[sel.Sel.Name] != "" || verbatim) {
					note(sel.X)
					if id, ok := sel.X.(*ast.Ident); ok { // an update through the range value variable changes the map it points into
						for _, al := range ri.alias {
							if al[0] == id.Name && !seen[al[1]] {
								seen[al[1]] = true
								carried = append(carried, al[1])
							}
						}
					}
				}
				if id, ok := c.Fun.(*ast.Ident); ok && id.Name == "delete" && len(c.Args) == 2 {
					note(c.Args[0])
				}
			}
		}
		return true
	})
	if bad != nil {
		return nil, bad
	}
	for _, c := range t.sp.carry {
		if t.decl[c] && !seen[c] {
			seen[c] = true
			carried = append(carried, c)
		}
	}
	if len(carried) == 0 {
		return nil, fmt.Errorf("loop without effect on the enclosing scope %q", norm(text(x.X)))
	}
	var names []string
	for _, c := range carried {
		names = append(names, leanIdent(c))
	}
	pat := names[0]
	if len(names) > 1 {
		pat = "(" + strings.Join(names, ", ") + ")"
	}
	if hasContinue { // `continue` ends the body for this element with the state as it is
		if t.loopCall != "" {
			return nil, fmt.Errorf("nested loops with continue")
		}
		t.loopCall = "return " + pat
	}
	body, err := t.loopBody(x, ri, ind+"    ")
	if hasContinue {
		t.loopCall = ""
	}
	if err != nil {
		return nil, err
	}
	out := []string{ind + pat + " ← " + ri.lst + ".foldlM (fun " + pat + " " + leanIdent(ri.v) + " => do"}
	for _, n := range names {
		out = append(out, ind+"    let mut "+n+" := "+n)
	}
	out = append(out, body...)
	out = append(out, ind+"    return "+pat+") "+pat)
	return out, nil
}

// rangeInfo: what a `for … range` statement iterates over. A slice is a list; a map keyed by protocol is visited protocol by
// protocol (TCP, UDP, SCTP), the body running for the protocols that have an entry - exact when the body touches no other entry
// than the one of its own key, which is checked.
type rangeInfo struct {
	lst, v, guard string
	pre           []string
	alias         [][3]string // value variable, Lean ConnSet variable, key
}

func (t *procTr) rangeOf(x *ast.RangeStmt) (*rangeInfo, error) {
	if x.Tok != token.DEFINE || len(x.Body.List) == 0 {
		return nil, fmt.Errorf("untranslatable loop %q", norm(text(x.X)))
	}
	if cs, ok := t.sp.protoMaps[norm(text(x.X))]; ok {
		k, ok := x.Key.(*ast.Ident)
		if !ok || k.Name == "_" {
			return nil, fmt.Errorf("loop over a protocol map without a key variable %q", norm(text(x.X)))
		}
		ri := &rangeInfo{lst: "Proto.all", v: k.Name, guard: "(" + cs + ".get " + leanIdent(k.Name) + ").isSome"}
		if x.Value != nil {
			v, ok := x.Value.(*ast.Ident)
			if !ok {
				return nil, fmt.Errorf("untranslatable loop %q", norm(text(x.X)))
			}
			if v.Name != "_" {
				ri.pre = append(ri.pre, "let mut "+leanIdent(v.Name)+" := ("+cs+".get "+leanIdent(k.Name)+").getD default")
				ri.alias = append(ri.alias, [3]string{v.Name, cs, leanIdent(k.Name)})
			}
		}
		// independence of the iterations: every map entry the body touches is the entry of the loop's own key
		var bad error
		ast.Inspect(x.Body, func(n ast.Node) bool {
			switch y := n.(type) {
			case *ast.IndexExpr:
				if _, ok := t.sp.protoMaps[norm(text(y.X))]; ok && norm(text(y.Index)) != k.Name {
					bad = fmt.Errorf("loop over a protocol map touches the entry of another key: %q", norm(text(y)))
				}
			case *ast.CallExpr:
				if id, ok := y.Fun.(*ast.Ident); ok && id.Name == "delete" && len(y.Args) == 2 && norm(text(y.Args[1])) != k.Name {
					bad = fmt.Errorf("loop over a protocol map deletes the entry of another key: %q", norm(text(y)))
				}
			}
			return true
		})
		return ri, bad
	}
	if pl, ok := t.sp.nameMaps[norm(text(x.X))]; ok {
		// a set of names is visited name by name (the order of a Go map is arbitrary; the bodies insert into and erase from sets,
		// which commutes); the value variable, if any, is always true
		k, ok := x.Key.(*ast.Ident)
		if !ok || k.Name == "_" {
			return nil, fmt.Errorf("loop over a set of names without a key variable %q", norm(text(x.X)))
		}
		ri := &rangeInfo{lst: pl, v: k.Name}
		if v, ok := x.Value.(*ast.Ident); ok && v.Name != "_" {
			ri.pre = append(ri.pre, "let "+leanIdent(v.Name)+" := true")
		}
		return ri, nil
	}
	if k, ok := x.Key.(*ast.Ident); ok && k.Name != "_" && x.Value == nil {
		// `for i := range L` over a slice, the body reading `L[i]` only: the loop variable of the translation is the element
		lst, err := t.expr(x.X)
		if err != nil {
			return nil, err
		}
		var bad error
		ast.Inspect(x.Body, func(n ast.Node) bool {
			if id, ok := n.(*ast.Ident); ok && id.Name == k.Name {
				bad = fmt.Errorf("index variable %s used outside %s[%s]", k.Name, norm(text(x.X)), k.Name)
			}
			if ix, ok := n.(*ast.IndexExpr); ok && norm(text(ix.X)) == norm(text(x.X)) && norm(text(ix.Index)) == k.Name {
				return false
			}
			return true
		})
		if bad != nil {
			return nil, bad
		}
		if t.idxLoop == nil {
			t.idxLoop = map[string]string{}
		}
		t.idxLoop[k.Name] = norm(text(x.X))
		return &rangeInfo{lst: lst, v: k.Name}, nil
	}
	v, okv := x.Value.(*ast.Ident)
	if !okv {
		return nil, fmt.Errorf("untranslatable loop %q", norm(text(x.X)))
	}
	if k, ok := x.Key.(*ast.Ident); x.Key != nil && (!ok || k.Name != "_") {
		return nil, fmt.Errorf("untranslatable loop %q", norm(text(x.X)))
	}
	lst, err := t.expr(x.X)
	if err != nil {
		return nil, err
	}
	return &rangeInfo{lst: lst, v: v.Name}, nil
}

// loopBody: the body of a loop for one element (the element variable bound by the caller's binder)
func (t *procTr) loopBody(x *ast.RangeStmt, ri *rangeInfo, ind string) ([]string, error) {
	t.decl[ri.v] = true
	if t.alias == nil {
		t.alias = map[string][2]string{}
	}
	for _, al := range ri.alias {
		t.decl[al[0]] = true
		t.alias[al[0]] = [2]string{al[1], al[2]}
	}
	defer func() {
		delete(t.decl, ri.v)
		for _, al := range ri.alias {
			delete(t.decl, al[0])
			delete(t.alias, al[0])
		}
	}()
	in := ind
	var out []string
	if ri.guard != "" {
		out = append(out, ind+"if "+ri.guard+" then")
		in = ind + "  "
	}
	for _, l := range ri.pre {
		out = append(out, in+l)
	}
	body, err := t.body(x.Body.List, in)
	if err != nil {
		return nil, err
	}
	return append(out, body...), nil
}

func (t *procTr) body(list []ast.Stmt, ind string) ([]string, error) {
	out, err := t.block(list, ind)
	if err != nil {
		return nil, err
	}
	if len(out) == 0 {
		out = []string{ind + "pure ()"}
	}
	return out, nil
}

// setPlace: `var.field := value` as a re-binding of the variable
func setPlace(place, val, ind string) string {
	i := strings.LastIndex(place, ".")
	v, f := place[:i], place[i+1:]
	return ind + v + " := { " + v + " with " + f + " := " + val + " }"
}

// refresh: a variable that points into the map entry (cs, k) sees the entry as it is after an update
func (t *procTr) refresh(cs, k, ind string) []string {
	var names []string
	for v, al := range t.alias {
		if al[0] == cs && al[1] == k {
			names = append(names, v)
		}
	}
	sort.Strings(names)
	var out []string
	for _, v := range names {
		out = append(out, ind+leanIdent(v)+" := ("+cs+".get "+k+").getD default")
	}
	return out
}

// commaOk: `v, ok := M[k]` on a map keyed by protocol: `ok` is whether the entry is present, `v` the entry (the zero value of the
// Go code, a nil pointer, is `default` here; it is never used where ok is false)
func (t *procTr) commaOk(a *ast.AssignStmt, ind string) ([]string, bool, error) {
	if len(a.Lhs) != 2 || len(a.Rhs) != 1 || a.Tok != token.DEFINE {
		return nil, false, nil
	}
	ix, ok := a.Rhs[0].(*ast.IndexExpr)
	if !ok {
		return nil, false, nil
	}
	cs, ok := t.sp.protoMaps[norm(text(ix.X))]
	if !ok {
		return nil, false, nil
	}
	k, err := t.expr(ix.Index)
	if err != nil {
		return nil, true, err
	}
	var out []string
	v, okv := a.Lhs[0].(*ast.Ident), a.Lhs[1].(*ast.Ident)
	if v.Name != "_" {
		t.decl[v.Name] = true
		if t.alias == nil {
			t.alias = map[string][2]string{}
		}
		t.alias[v.Name] = [2]string{cs, k} // a pointer into the map entry
		out = append(out, ind+"let mut "+leanIdent(v.Name)+" := ("+cs+".get "+k+").getD default")
	}
	if okv.Name != "_" {
		t.decl[okv.Name] = true
		out = append(out, ind+"let mut "+leanIdent(okv.Name)+" := ("+cs+".get "+k+").isSome")
	}
	return out, true, nil
}

func (t *procTr) ifStmt(x *ast.IfStmt, ind string) ([]string, error) {
	var pre []string
	if x.Init != nil {
		a, ok := x.Init.(*ast.AssignStmt)
		if !ok {
			return nil, fmt.Errorf("untranslatable if with an init statement %q", norm(text(x.Init)))
		}
		// `if err := call(…); err != nil { return …, wrap(err) }`: the call's effect, its error passed on (the wrapping keeps the class)
		if v, ok := t.sp.stmts[norm(text(a))]; ok && norm(text(x.Cond)) == "err != nil" && x.Else == nil && len(x.Body.List) == 1 {
			if _, isRet := x.Body.List[0].(*ast.ReturnStmt); isRet {
				return []string{ind + v}, nil
			}
		}
		ls, done, err := t.commaOk(a, ind)
		if err != nil || !done {
			return nil, fmt.Errorf("untranslatable if with an init statement %q", norm(text(x.Init)))
		}
		pre = ls
	}
	out0, err0 := t.ifStmtNoInit(x, ind)
	return append(pre, out0...), err0
}

func (t *procTr) ifStmtNoInit(x *ast.IfStmt, ind string) ([]string, error) {
	c, err := t.expr(x.Cond)
	if err != nil {
		return nil, err
	}
	out := []string{ind + "if " + c + " then"}
	body, err := t.body(x.Body.List, ind+"  ")
	if err != nil {
		return nil, err
	}
	out = append(out, body...)
	switch e := x.Else.(type) {
	case nil:
	case *ast.BlockStmt:
		out = append(out, ind+"else")
		body, err := t.body(e.List, ind+"  ")
		if err != nil {
			return nil, err
		}
		out = append(out, body...)
	case *ast.IfStmt:
		out = append(out, ind+"else")
		ls, err := t.ifStmt(e, ind+"  ")
		if err != nil {
			return nil, err
		}
		out = append(out, ls...)
	}
	return out, nil
}

func (t *procTr) ret(r *ast.ReturnStmt) (string, error) {
	n := len(r.Results)
	if n == 1 {
		if c, ok := t.sp.retCalls[norm(text(r.Results[0]))]; ok {
			return "return (← " + c + ")", nil
		}
	}
	if t.sp.pure {
		if n != 1 {
			return "", fmt.Errorf("untranslatable return %q", norm(text(r)))
		}
		s, err := t.expr(r.Results[0])
		return "return " + s, err
	}
	if n == 0 {
		if t.sp.result == "" {
			return "", fmt.Errorf("untranslatable bare return")
		}
		return "return " + t.sp.result, nil
	}
	last := norm(text(r.Results[n-1]))
	if last == "nil" {
		if n == 1 {
			return "return " + t.sp.result, nil
		}
		var parts []string
		for _, x := range r.Results[:n-1] {
			s, err := t.expr(x)
			if err != nil {
				return "", err
			}
			parts = append(parts, s)
		}
		if len(parts) == 1 {
			return "return " + parts[0], nil
		}
		return "return (" + strings.Join(parts, ", ") + ")", nil
	}
	if e, ok := t.sp.errs[last]; ok {
		return "throw " + e, nil
	}
	return "", fmt.Errorf("untranslatable error value %q", last)
}

func genProcs(repo, out string) {
	k8sdir := "pkg/netpol/eval/internal/k8s/"
	actions := map[string]string{
		"string(apisv1a.AdminNetworkPolicyRuleActionAllow)": `"Allow"`, "string(apisv1a.AdminNetworkPolicyRuleActionDeny)": `"Deny"`,
		"string(apisv1a.AdminNetworkPolicyRuleActionPass)": `"Pass"`,
	}
	with := func(m map[string]string, more map[string]string) map[string]string {
		r := map[string]string{}
		for k, v := range m {
			r[k] = v
		}
		for k, v := range more {
			r[k] = v
		}
		return r
	}
	badAction := map[string]string{"fmt.Errorf(netpolerrors.UnknownRuleActionErr)": ".badAction", "errors.New(netpolerrors.UnknownRuleActionErr)": ".badAction"}
	mk := map[string]string{"common.MakeConnectionSet(true)": "(ConnSet.mk' true)", "common.MakeConnectionSet(false)": "(ConnSet.mk' false)",
		"k8s.NewPolicyConnections()": "PolicyConns.empty", "NewPolicyConnections()": "PolicyConns.empty"}
	specs := []procSpec{
		{file: k8sdir + "policy_connections.go", fn: "PolicyConnections.UpdateWithRuleConns", lean: "updateWithRuleConns",
			sig:  "(pc : PolicyConns) (ruleConns : ConnSet) (ruleAction : String) (banpRules : Bool) : Except Err (PolicyConns × ConnSet)",
			muts: []string{"pc", "ruleConns"}, atoms: actions, errs: badAction, result: "(pc, ruleConns)"},
		{file: k8sdir + "policy_connections.go", fn: "PolicyConnections.CollectANPConns", lean: "collectANPConns",
			sig:  "(pc newAdminPolicyConns : PolicyConns) : Except Err (PolicyConns × PolicyConns)",
			muts: []string{"pc", "newAdminPolicyConns"}, result: "(pc, newAdminPolicyConns)"},
		{file: k8sdir + "policy_connections.go", fn: "PolicyConnections.CollectAllowedConnsFromNetpols", lean: "collectAllowedConnsFromNetpols",
			sig:  "(pc npConns : PolicyConns) : Except Err (PolicyConns × PolicyConns)",
			muts: []string{"pc", "npConns"}, result: "(pc, npConns)"},
		{file: k8sdir + "policy_connections.go", fn: "PolicyConnections.CollectConnsFromBANP", lean: "collectConnsFromBANP",
			sig:  "(pc banpConns : PolicyConns) : Except Err (PolicyConns × PolicyConns)",
			muts: []string{"pc", "banpConns"}, atoms: mk, result: "(pc, banpConns)"},
		{file: k8sdir + "policy_connections.go", fn: "PolicyConnections.DeterminesAllConns", lean: "determinesAllConns",
			sig: "(pc : PolicyConns) : Except Err Bool", muts: []string{"pc"}, pure: true,
			atoms: map[string]string{"selectedConns.IsAllConnections()": "selectedConns.allowAll"}},
		{file: k8sdir + "adminnetpol.go", fn: "updatePolicyConns", lean: "updatePolicyConns",
			sig:   "(rulePorts : Option (List APort)) (policyConns : PolicyConns) (dst : KPeer) (action : String) (isBANPrule : Bool) : Except Err PolicyConns",
			muts:  []string{"policyConns"}, result: "policyConns",
			calls: map[string]string{"ruleConnections(rulePorts, dst)": "(Except.ok (ARule.conns rulePorts dst) : Except Err ConnSet)"},
			stmts: map[string]string{"err = policyConns.UpdateWithRuleConns(ruleConns, action, isBANPrule)": "policyConns := (← updateWithRuleConns policyConns ruleConns action isBANPrule).1",
				"return err": "return policyConns"}},
		{file: k8sdir + "adminnetpol.go", fn: "updateConnsIfEgressRuleSelectsPeer", lean: "updateConnsIfEgressRuleSelectsPeer",
			sig:   "(rulePeers : List Subject) (rulePorts : Option (List APort)) (dst : KPeer) (policyConns : PolicyConns) (action : String) (isBANPrule : Bool) : Except Err PolicyConns",
			muts:  []string{"policyConns"}, result: "policyConns",
			atoms: map[string]string{"len(rulePeers)": "rulePeers.length"}, errs: map[string]string{"errors.New(netpolerrors.ANPEgressRulePeersErr)": ".anpRulePeers"},
			calls: map[string]string{"egressRuleSelectsPeer(rulePeers, dst)": "(Except.ok (rulePeers.any (·.selectsPeer dst)) : Except Err Bool)"},
			stmts: map[string]string{"err = updatePolicyConns(rulePorts, policyConns, dst, action, isBANPrule)": "policyConns ← updatePolicyConns rulePorts policyConns dst action isBANPrule",
				"return err": "return policyConns"}},
		{file: k8sdir + "adminnetpol.go", fn: "updateConnsIfIngressRuleSelectsPeer", lean: "updateConnsIfIngressRuleSelectsPeer",
			sig:   "(rulePeers : List Subject) (rulePorts : Option (List APort)) (src dst : KPeer) (policyConns : PolicyConns) (action : String) (isBANPrule : Bool) : Except Err PolicyConns",
			muts:  []string{"policyConns"}, result: "policyConns",
			atoms: map[string]string{"len(rulePeers)": "rulePeers.length"}, errs: map[string]string{"errors.New(netpolerrors.ANPIngressRulePeersErr)": ".anpRulePeers"},
			calls: map[string]string{"ingressRuleSelectsPeer(rulePeers, src)": "(Except.ok (rulePeers.any (·.selectsPeer src)) : Except Err Bool)"},
			stmts: map[string]string{"err = updatePolicyConns(rulePorts, policyConns, dst, action, isBANPrule)": "policyConns ← updatePolicyConns rulePorts policyConns dst action isBANPrule",
				"return err": "return policyConns"}},
		{file: k8sdir + "adminnetpol.go", fn: "AdminNetworkPolicy.GetEgressPolicyConns", lean: "anpGetEgressPolicyConns",
			sig:   "(rules : List ARule) (dst : KPeer) : Except Err PolicyConns", carry: []string{"res"},
			atoms: map[string]string{"NewPolicyConnections()": "PolicyConns.empty", "anp.Spec.Egress": "rules", "rule.To": "rule.peers", "rule.Ports": "rule.ports"},
			stmts: map[string]string{"err := updateConnsIfEgressRuleSelectsPeer(rulePeers, rulePorts, dst, res, string(rule.Action), false)": "res ← updateConnsIfEgressRuleSelectsPeer rulePeers rulePorts dst res (actionString rule.action) false"}},
		{file: k8sdir + "adminnetpol.go", fn: "AdminNetworkPolicy.GetIngressPolicyConns", lean: "anpGetIngressPolicyConns",
			sig:   "(rules : List ARule) (src dst : KPeer) : Except Err PolicyConns", carry: []string{"res"},
			atoms: map[string]string{"NewPolicyConnections()": "PolicyConns.empty", "anp.Spec.Ingress": "rules", "rule.From": "rule.peers", "rule.Ports": "rule.ports"},
			stmts: map[string]string{"err := updateConnsIfIngressRuleSelectsPeer(rulePeers, rulePorts, src, dst, res, string(rule.Action), false)": "res ← updateConnsIfIngressRuleSelectsPeer rulePeers rulePorts src dst res (actionString rule.action) false"}},
		{file: k8sdir + "baseline_admin_netpol.go", fn: "BaselineAdminNetworkPolicy.GetEgressPolicyConns", lean: "banpGetEgressPolicyConns",
			sig:   "(rules : List ARule) (dst : KPeer) : Except Err PolicyConns", carry: []string{"res"},
			atoms: map[string]string{"NewPolicyConnections()": "PolicyConns.empty", "banp.Spec.Egress": "rules", "rule.To": "rule.peers", "rule.Ports": "rule.ports"},
			stmts: map[string]string{"err := updateConnsIfEgressRuleSelectsPeer(rulePeers, rulePorts, dst, res, string(rule.Action), true)": "res ← updateConnsIfEgressRuleSelectsPeer rulePeers rulePorts dst res (actionString rule.action) true"}},
		{file: k8sdir + "baseline_admin_netpol.go", fn: "BaselineAdminNetworkPolicy.GetIngressPolicyConns", lean: "banpGetIngressPolicyConns",
			sig:   "(rules : List ARule) (src dst : KPeer) : Except Err PolicyConns", carry: []string{"res"},
			atoms: map[string]string{"NewPolicyConnections()": "PolicyConns.empty", "banp.Spec.Ingress": "rules", "rule.From": "rule.peers", "rule.Ports": "rule.ports"},
			stmts: map[string]string{"err := updateConnsIfIngressRuleSelectsPeer(rulePeers, rulePorts, src, dst, res, string(rule.Action), true)": "res ← updateConnsIfIngressRuleSelectsPeer rulePeers rulePorts src dst res (actionString rule.action) true"}},
		{file: k8sdir + "adminnetpol.go", fn: "determineConnResByAction", lean: "determineConnResByAction",
			sig:   "(action : String) (isBANPrule : Bool) : Except Err RuleRes",
			atoms: with(actions, map[string]string{"Pass": "RuleRes.pass", "Allow": "RuleRes.allow", "Deny": "RuleRes.deny"}), errs: badAction},
		{file: k8sdir + "baseline_admin_netpol.go", fn: "allowedByBANPRules", lean: "allowedByBANPRules",
			sig:   "(res : RuleRes) : Except Err Bool",
			atoms: map[string]string{"Allow": "RuleRes.allow", "Deny": "RuleRes.deny"}, errs: badAction},
		{file: k8sdir + "adminnetpol.go", fn: "onlyOnePortFieldsSet", lean: "onlyOnePortFieldsSet",
			sig: "(hasNumber hasRange hasName : Bool) : Except Err Bool", pure: true,
			atoms: map[string]string{"anpPort.PortNumber != nil": "hasNumber", "anpPort.PortRange != nil": "hasRange", "anpPort.NamedPort != nil": "hasName"}},
		{file: k8sdir + "adminnetpol.go", fn: "AdminNetworkPolicy.adminPolicyAffectsDirection", lean: "adminPolicyAffectsDirection",
			sig: "(isIngress : Bool) (nIngress nEgress : Nat) : Except Err Bool", pure: true,
			atoms: map[string]string{"len(anp.Spec.Ingress)": "nIngress", "len(anp.Spec.Egress)": "nEgress"}},
		{file: k8sdir + "baseline_admin_netpol.go", fn: "BaselineAdminNetworkPolicy.baselineAdminPolicyAffectsDirection", lean: "baselineAdminPolicyAffectsDirection",
			sig: "(isIngress : Bool) (nIngress nEgress : Nat) : Except Err Bool", pure: true,
			atoms: map[string]string{"len(banp.Spec.Ingress)": "nIngress", "len(banp.Spec.Egress)": "nEgress"}},
		{file: k8sdir + "adminnetpol.go", fn: "AdminNetworkPolicy.Selects", lean: "anpSelects",
			sig:   "(anp : ANP) (p : KPeer) (isIngress : Bool) : Except Err Bool",
			atoms: map[string]string{"p.PeerType() == IPBlockType": "(!p.isPod)",
				"anp.adminPolicyAffectsDirection(isIngress)": "(← adminPolicyAffectsDirection isIngress anp.ingress.length anp.egress.length)"},
			stmts:    map[string]string{"errTitle := fmt.Sprintf(\"%s %q: \", anpErrTitle, anp.Name)": "pure ()"},
			retCalls: map[string]string{"subjectSelectsPeer(anp.Spec.Subject, p, errTitle)": "(Except.ok (anp.subject.selectsPeer p) : Except Err Bool)"}},
		{file: k8sdir + "baseline_admin_netpol.go", fn: "BaselineAdminNetworkPolicy.Selects", lean: "banpSelects",
			sig:   "(banp : BANP) (p : KPeer) (isIngress : Bool) : Except Err Bool",
			atoms: map[string]string{"p.PeerType() == IPBlockType": "(!p.isPod)",
				"banp.baselineAdminPolicyAffectsDirection(isIngress)": "(← baselineAdminPolicyAffectsDirection isIngress banp.ingress.length banp.egress.length)"},
			retCalls: map[string]string{"subjectSelectsPeer(banp.Spec.Subject, p, banpErrTitle)": "(Except.ok (banp.subject.selectsPeer p) : Except Err Bool)"}},
		{file: "pkg/netpol/eval/check.go", fn: "PolicyEngine.allAllowedXgressConnections", lean: "allAllowedXgressConnections",
			sig: "(anpRes npRes : Except Err (PolicyConns × Bool)) (defaultRes : Except Err PolicyConns) : Except Err ConnSet",
			calls: map[string]string{
				"pe.getAllAllowedXgressConnectionsFromANPs(src, dst, isIngress)": "anpRes",
				"pe.getAllAllowedXgressConnsFromNetpols(src, dst, isIngress)":    "npRes",
				"pe.getXgressDefaultConns(src, dst, isIngress)":                  "defaultRes"},
			stmts: map[string]string{
				"anpConns.CollectAllowedConnsFromNetpols(npConns)": "anpConns := (← collectAllowedConnsFromNetpols anpConns npConns).1",
				"anpConns.CollectConnsFromBANP(defaultConns)":      "anpConns := (← collectConnsFromBANP anpConns defaultConns).1"}},
		{file: "pkg/netpol/eval/check.go", fn: "PolicyEngine.allAllowedConnectionsBetweenPeers", lean: "allAllowedConnectionsBetweenPeers",
			sig: "(podToItself nodeIP1 nodeIP2 : Bool) (egressCall ingressCall : Except Err ConnSet) : Except Err ConnSet",
			atoms: with(mk, map[string]string{"isPodToItself(srcK8sPeer, dstK8sPeer)": "podToItself", "isPeerNodeIP(srcK8sPeer, dstK8sPeer)": "nodeIP1",
				"isPeerNodeIP(dstK8sPeer, srcK8sPeer)": "nodeIP2"}),
			calls: map[string]string{"pe.allAllowedXgressConnections(srcK8sPeer, dstK8sPeer, false)": "egressCall",
				"pe.allAllowedXgressConnections(srcK8sPeer, dstK8sPeer, true)": "ingressCall"},
			stmts: map[string]string{"srcK8sPeer := srcPeer.(k8s.Peer)": "pure ()", "dstK8sPeer := dstPeer.(k8s.Peer)": "pure ()"}},
		{file: "pkg/netpol/eval/check.go", fn: "PolicyEngine.getXgressDefaultConns", lean: "getXgressDefaultConns",
			sig:   "(hasBANP isIngress : Bool) (selectsDstRes selectsSrcRes : Except Err Bool) (ingressConnsRes egressConnsRes : Except Err PolicyConns) : Except Err PolicyConns",
			atoms: with(mk, map[string]string{"pe.baselineAdminNetpol == nil": "(!hasBANP)"}),
			calls: map[string]string{"pe.baselineAdminNetpol.Selects(dst, true)": "selectsDstRes", "pe.baselineAdminNetpol.Selects(src, false)": "selectsSrcRes",
				"pe.baselineAdminNetpol.GetIngressPolicyConns(src, dst)": "ingressConnsRes", "pe.baselineAdminNetpol.GetEgressPolicyConns(dst)": "egressConnsRes"}},
		{file: "pkg/netpol/internal/common/connectionset.go", fn: "ConnectionSet.isAllConnectionsWithoutAllowAll", lean: "isAllConnectionsWithoutAllowAll",
			sig: "(conn : ConnSet) : Except Err Bool", pure: true, loopElem: "Proto",
			atoms: map[string]string{"allProtocols": "Proto.all"}, protoMaps: map[string]string{"conn.AllowedProtocols": "conn"}},
		{file: "pkg/netpol/internal/common/connectionset.go", fn: "ConnectionSet.checkIfAllConnections", lean: "checkIfAllConnections",
			sig: "(conn : ConnSet) : Except Err ConnSet", muts: []string{"conn"}, result: "conn",
			atoms: map[string]string{"conn.isAllConnectionsWithoutAllowAll()": "(← isAllConnectionsWithoutAllowAll conn)"},
			stmts: map[string]string{"conn.AllowedProtocols = map[v1.Protocol]*PortSet{}": "conn := { conn with tcp := none, udp := none, sctp := none }"}},
		{file: "pkg/netpol/internal/common/connectionset.go", fn: "ConnectionSet.addConnection", lean: "addConnection",
			sig: "(conn : ConnSet) (protocol : Proto) (ports : PortSet) : Except Err ConnSet", muts: []string{"conn"}, result: "conn",
			protoMaps: map[string]string{"conn.AllowedProtocols": "conn"}},
		{file: "pkg/netpol/internal/common/connectionset.go", fn: "ConnectionSet.AddConnection", lean: "addConnectionPublic",
			sig: "(conn : ConnSet) (protocol : Proto) (ports : PortSet) : Except Err ConnSet", muts: []string{"conn"}, result: "conn",
			stmts: map[string]string{"conn.addConnection(protocol, ports)": "conn ← addConnection conn protocol ports", "conn.checkIfAllConnections()": "conn ← checkIfAllConnections conn"}},
		{file: "pkg/netpol/internal/common/connectionset.go", fn: "ConnectionSet.addAllConns", lean: "addAllConns",
			sig: "(conn : ConnSet) : Except Err ConnSet", muts: []string{"conn"}, result: "conn",
			atoms: map[string]string{"allProtocols": "Proto.all"},
			stmts: map[string]string{"conn.addConnection(protocol, MakePortSet(true))": "conn ← addConnection conn protocol (PortSet.mk' true)"}},
		{file: "pkg/netpol/internal/common/connectionset.go", fn: "ConnectionSet.Intersection", lean: "intersection",
			sig: "(conn other : ConnSet) : Except Err ConnSet", muts: []string{"conn"}, result: "conn",
			protoMaps: map[string]string{"conn.AllowedProtocols": "conn", "other.AllowedProtocols": "other"}},
		{file: "pkg/netpol/internal/common/connectionset.go", fn: "ConnectionSet.Union", lean: "union",
			sig: "(conn other : ConnSet) : Except Err ConnSet", muts: []string{"conn"}, result: "conn",
			protoMaps: map[string]string{"conn.AllowedProtocols": "conn", "other.AllowedProtocols": "other"},
			stmts: map[string]string{"conn.AllowedProtocols = map[v1.Protocol]*PortSet{}": "conn := { conn with tcp := none, udp := none, sctp := none }",
				"conn.checkIfAllConnections()": "conn ← checkIfAllConnections conn"}},
		{file: "pkg/netpol/internal/common/connectionset.go", fn: "ConnectionSet.Subtract", lean: "subtract",
			sig: "(conn other : ConnSet) : Except Err ConnSet", muts: []string{"conn"}, result: "conn",
			protoMaps: map[string]string{"conn.AllowedProtocols": "conn", "other.AllowedProtocols": "other"},
			stmts: map[string]string{"conn.AllowedProtocols = map[v1.Protocol]*PortSet{}": "conn := { conn with tcp := none, udp := none, sctp := none }",
				"conn.addAllConns()": "conn ← addAllConns conn"}},
		{file: "pkg/netpol/internal/common/connectionset.go", fn: "ConnectionSet.Contains", lean: "connSetContains",
			sig: "(conn : ConnSet) (port protocol : String) : Except Err Bool", pure: true, loopElem: "Proto", locals: []string{"intPort"},
			atoms: map[string]string{"strings.EqualFold(protocol, string(allowedProtocol))": "(Proto.ofStrFold? protocol == some allowedProtocol)",
				"allowedPorts.Contains(int64(intPort))": "(allowedPorts.contains (port.toInt?.getD 0))"},
			stmts: map[string]string{"intPort, err := strconv.Atoi(port)": "let intPort := port.toInt?", "if err != nil { return false }": "if intPort.isNone then return false"},
			protoMaps: map[string]string{"conn.AllowedProtocols": "conn"}},
		{file: "pkg/netpol/internal/common/connectionset.go", fn: "ConnectionSet.Equal", lean: "connSetEqual",
			sig: "(conn other : ConnSet) : Except Err Bool", pure: true, loopElem: "Proto",
			atoms:     map[string]string{"len(conn.AllowedProtocols)": "conn.numProtos", "len(other.AllowedProtocols)": "other.numProtos"},
			protoMaps: map[string]string{"conn.AllowedProtocols": "conn", "other.AllowedProtocols": "other"}},
		{file: "pkg/netpol/internal/common/connectionset.go", fn: "ConnectionSet.Copy", lean: "connSetCopy",
			sig: "(conn : ConnSet) : Except Err ConnSet", pure: true,
			atoms:     map[string]string{"MakeConnectionSet(false)": "(ConnSet.mk' false)"},
			protoMaps: map[string]string{"conn.AllowedProtocols": "conn", "res.AllowedProtocols": "res"}},
		{file: "pkg/netpol/internal/common/connectionset.go", fn: "ConnectionSet.ContainedIn", lean: "containedIn",
			sig: "(conn other : ConnSet) : Except Err Bool", pure: true, loopElem: "Proto",
			protoMaps: map[string]string{"conn.AllowedProtocols": "conn", "other.AllowedProtocols": "other"}},
		{file: "pkg/netpol/internal/common/portset.go", fn: "PortSet.AddPort", lean: "portSetAddPort",
			sig: "(p : PortSet) (isName : Bool) (strVal : String) (intVal : Int) : Except Err PortSet", muts: []string{"p"}, result: "p",
			atoms:    map[string]string{"port.Type == intstr.String": "isName", "port.StrVal": "strVal"},
			nameMaps: map[string]string{"p.NamedPorts": "p.named", "p.ExcludedNamedPorts": "p.excluded"},
			stmts:    map[string]string{"p.Ports.AddInterval(interval.New(int64(port.IntVal), int64(port.IntVal)))": "p := { p with ports := CSet.addIv (Iv.new intVal intVal) p.ports }"}},
		{file: "pkg/netpol/internal/common/portset.go", fn: "PortSet.RemovePort", lean: "portSetRemovePort",
			sig: "(p : PortSet) (isName : Bool) (strVal : String) (intVal : Int) : Except Err PortSet", muts: []string{"p"}, result: "p",
			atoms:    map[string]string{"port.Type == intstr.String": "isName", "port.StrVal": "strVal"},
			nameMaps: map[string]string{"p.NamedPorts": "p.named", "p.ExcludedNamedPorts": "p.excluded"},
			stmts:    map[string]string{"p.Ports.AddHole(interval.New(int64(port.IntVal), int64(port.IntVal)))": "p := { p with ports := CSet.addHole (Iv.new intVal intVal) p.ports }"}},
		{file: "pkg/netpol/internal/common/portset.go", fn: "PortSet.AddPortRange", lean: "portSetAddPortRange",
			sig: "(p : PortSet) (minPort maxPort : Int) : Except Err PortSet", muts: []string{"p"}, result: "p",
			stmts: map[string]string{"p.Ports.AddInterval(interval.New(minPort, maxPort))": "p := { p with ports := CSet.addIv (Iv.new minPort maxPort) p.ports }"}},
		{file: "pkg/netpol/internal/common/portset.go", fn: "PortSet.Union", lean: "portSetUnion",
			sig: "(p other : PortSet) : Except Err PortSet", muts: []string{"p"}, result: "p",
			atoms:    map[string]string{"p.Ports.Union(other.Ports)": "(CSet.union p.ports other.ports)"},
			nameMaps: map[string]string{"p.NamedPorts": "p.named", "p.ExcludedNamedPorts": "p.excluded", "other.NamedPorts": "other.named", "other.ExcludedNamedPorts": "other.excluded"}},
		{file: "pkg/netpol/internal/common/portset.go", fn: "PortSet.subtractNamedPorts", lean: "portSetSubtractNamedPorts",
			sig: "(p : PortSet) (otherNamedPorts : List String) : Except Err PortSet", muts: []string{"p"}, result: "p",
			nameMaps: map[string]string{"p.NamedPorts": "p.named", "p.ExcludedNamedPorts": "p.excluded", "otherNamedPorts": "otherNamedPorts"}},
		{file: "pkg/netpol/internal/common/portset.go", fn: "PortSet.subtract", lean: "portSetSubtract",
			sig: "(p other : PortSet) : Except Err PortSet", muts: []string{"p"}, result: "p",
			atoms: map[string]string{"p.Ports.Subtract(other.Ports)": "(CSet.subtract p.ports other.ports)"},
			stmts: map[string]string{"p.subtractNamedPorts(other.NamedPorts)": "p ← portSetSubtractNamedPorts p other.named"}},
		{file: "pkg/netpol/internal/common/portset.go", fn: "PortSet.Intersection", lean: "portSetIntersection",
			sig: "(p other : PortSet) : Except Err PortSet", muts: []string{"p"}, result: "p",
			atoms: map[string]string{"p.Ports.Intersect(other.Ports)": "(CSet.inter p.ports other.ports)"}},
		{file: "pkg/netpol/internal/common/portset.go", fn: "PortSet.ContainedIn", lean: "portSetContainedIn",
			sig: "(p other : PortSet) : Except Err Bool", pure: true, loopElem: "String",
			atoms: map[string]string{"p.Ports.IsSubset(other.Ports)": "(CSet.isSubset p.ports other.ports)",
				"other.Ports.Equal(MakePortSet(true).Ports)": "(CSet.equal other.ports (PortSet.mk' true).ports)"},
			nameMaps: map[string]string{"p.NamedPorts": "p.named", "other.NamedPorts": "other.named"}},
		{file: "pkg/netpol/internal/common/portset.go", fn: "PortSet.IsAll", lean: "portSetIsAll",
			sig: "(p : PortSet) : Except Err Bool", pure: true,
			atoms: map[string]string{"p.Ports.Equal(MakePortSet(true).Ports)": "(CSet.equal p.ports (PortSet.mk' true).ports)", "len(p.ExcludedNamedPorts)": "p.excluded.length"}},
		{file: k8sdir + "netpol.go", fn: "NetworkPolicy.GetEgressAllowedConns", lean: "npGetEgressAllowedConns",
			sig:   "(np : NetPol) (dst : KPeer) : Except Err ConnSet",
			atoms: map[string]string{"common.MakeConnectionSet(false)": "(ConnSet.mk' false)", "np.Spec.Egress": "np.egress", "rule.To": "rule.peers", "rule.Ports": "rule.ports"},
			calls: map[string]string{"np.ruleSelectsPeer(rulePeers, dst)": "(np.ruleSelectsPeer rulePeers dst)", "np.ruleConnections(rulePorts, dst)": "(NetPol.ruleConnections rulePorts (some dst))"}},
		{file: k8sdir + "netpol.go", fn: "NetworkPolicy.GetIngressAllowedConns", lean: "npGetIngressAllowedConns",
			sig:   "(np : NetPol) (src dst : KPeer) : Except Err ConnSet",
			atoms: map[string]string{"common.MakeConnectionSet(false)": "(ConnSet.mk' false)", "np.Spec.Ingress": "np.ingress", "rule.From": "rule.peers", "rule.Ports": "rule.ports"},
			calls: map[string]string{"np.ruleSelectsPeer(rulePeers, src)": "(np.ruleSelectsPeer rulePeers src)", "np.ruleConnections(rulePorts, dst)": "(NetPol.ruleConnections rulePorts (some dst))"}},
		{file: k8sdir + "netpol.go", fn: "NetworkPolicy.IngressAllowedConn", lean: "npIngressAllowedConn",
			sig:   "(np : NetPol) (src : KPeer) (protocol port : String) (dst : KPeer) : Except Err Bool", loopElem: "NPRule",
			atoms: map[string]string{"np.Spec.Ingress": "np.ingress"}, fields: map[string]string{"From": "peers", "Ports": "ports"},
			calls: map[string]string{"np.ruleSelectsPeer(rulePeers, src)": "(np.ruleSelectsPeer rulePeers src)",
				"np.ruleConnsContain(rulePorts, protocol, port, dst)": "(EState.npRuleConnsContain rulePorts protocol port dst)"}},
		{file: k8sdir + "netpol.go", fn: "NetworkPolicy.EgressAllowedConn", lean: "npEgressAllowedConn",
			sig:   "(np : NetPol) (dst : KPeer) (protocol port : String) : Except Err Bool", loopElem: "NPRule",
			atoms: map[string]string{"np.Spec.Egress": "np.egress"}, fields: map[string]string{"To": "peers", "Ports": "ports"},
			calls: map[string]string{"np.ruleSelectsPeer(rulePeers, dst)": "(np.ruleSelectsPeer rulePeers dst)",
				"np.ruleConnsContain(rulePorts, protocol, port, dst)": "(EState.npRuleConnsContain rulePorts protocol port dst)"}},
		{file: k8sdir + "netpol.go", fn: "NetworkPolicy.policyAffectsDirection", lean: "policyAffectsDirection",
			sig: "(types : List Dir) (direction : Dir) (nEgress : Nat) : Except Err Bool", pure: true,
			atoms: map[string]string{"len(np.Spec.PolicyTypes)": "types.length", "np.Spec.PolicyTypes": "types", "netv1.PolicyTypeIngress": "Dir.ingress",
				"len(np.Spec.Egress)": "nEgress"}},
		{file: k8sdir + "netpol.go", fn: "doesRulePortContain", lean: "doesRulePortContain",
			sig: "(sameProtocol : Bool) (ruleStartPort ruleEndPort otherPort : Int) : Except Err Bool", pure: true,
			atoms: map[string]string{"strings.EqualFold(ruleProtocol, otherProtocol)": "sameProtocol",
				"isEmptyPortRange(ruleStartPort, ruleEndPort)": "(NetPol.isEmptyPortRange ruleStartPort ruleEndPort)"}},
		{file: "pkg/netpol/connlist/connlist.go", fn: "ConnlistAnalyzer.includePairOfWorkloads", lean: "includePairOfWorkloads",
			sig: "(srcIsIP dstIsIP : Bool) (srcStr dstStr : String) (exposure includeRep : Bool) (focus : String) (srcFocus srcRep dstFocus dstRep : Bool) : Except Err Bool", pure: true,
			atoms: map[string]string{"src.IsPeerIPType()": "srcIsIP", "dst.IsPeerIPType()": "dstIsIP", "src.String()": "srcStr", "dst.String()": "dstStr",
				"ca.exposureAnalysis": "exposure", "ca.includePairWithRepresentativePeer(pe, src, dst)": "includeRep", "ca.focusWorkload": "focus",
				"ca.isPeerFocusWorkload(src)": "srcFocus", "pe.IsRepresentativePeer(src)": "srcRep", "ca.isPeerFocusWorkload(dst)": "dstFocus", "pe.IsRepresentativePeer(dst)": "dstRep"}},
		{file: "pkg/netpol/eval/check.go", fn: "PolicyEngine.getAllAllowedXgressConnectionsFromANPs", lean: "getAllAllowedXgressConnectionsFromANPs",
			sig:   "(anps : List ANP) (src dst : KPeer) (isIngress : Bool) : Except Err (PolicyConns × Bool)",
			atoms: with(mk, map[string]string{"pe.sortedAdminNetpols": "anps"}),
			calls: map[string]string{"anp.Selects(src, false)": "(anpSelects anp src false)", "anp.Selects(dst, true)": "(anpSelects anp dst true)",
				"anp.GetEgressPolicyConns(dst)": "(anpGetEgressPolicyConns anp.egress dst)", "anp.GetIngressPolicyConns(src, dst)": "(anpGetIngressPolicyConns anp.ingress src dst)"},
			stmts: map[string]string{"policiesConns.CollectANPConns(singleANPConns)": "policiesConns := (← collectANPConns policiesConns singleANPConns).1"}},
		{file: "pkg/netpol/eval/check.go", fn: "PolicyEngine.determineAllowedConnsPerDirection", lean: "determineAllowedConnsPerDirection",
			sig: "(policy : NetPol) (src dst : KPeer) (isIngress : Bool) (inExt inCw egExt egCw : ConnSet) (srcIsPod dstIsPod : Bool) : Except Err ConnSet",
			atoms: map[string]string{"policy.IngressPolicyExposure.ExternalExposure": "inExt", "policy.IngressPolicyExposure.ClusterWideExposure": "inCw",
				"policy.EgressPolicyExposure.ExternalExposure": "egExt", "policy.EgressPolicyExposure.ClusterWideExposure": "egCw",
				"src.PeerType() == k8s.PodType": "srcIsPod", "dst.PeerType() == k8s.PodType": "dstIsPod"},
			retCalls: map[string]string{"policy.GetIngressAllowedConns(src, dst)": "(npGetIngressAllowedConns policy src dst)", "policy.GetEgressAllowedConns(dst)": "(npGetEgressAllowedConns policy dst)"}},
		{file: "pkg/netpol/eval/check.go", fn: "PolicyEngine.getAllAllowedXgressConnsFromNetpols", lean: "getAllAllowedXgressConnsFromNetpols",
			sig:   "(polsIngress polsEgress : Except Err (List NetPol)) (src dst : KPeer) (isIngress : Bool) : Except Err (PolicyConns × Bool)",
			atoms: with(mk, map[string]string{"nil": "PolicyConns.empty", "len(netpols)": "netpols.length"}), locals: []string{"netpols"},
			calls: map[string]string{"pe.determineAllowedConnsPerDirection(policy, src, dst, isIngress)": "(determineAllowedConnsPerDirection policy src dst isIngress (ConnSet.mk' false) (ConnSet.mk' false) (ConnSet.mk' false) (ConnSet.mk' false) src.isPod dst.isPod)"},
			stmts: map[string]string{
				"var netpols []*k8s.NetworkPolicy": "pure ()",
				"if isIngress { netpols, err = pe.getPoliciesSelectingPod(dst, netv1.PolicyTypeIngress) } else { netpols, err = pe.getPoliciesSelectingPod(src, netv1.PolicyTypeEgress) }": "let netpols ← (if isIngress then polsIngress else polsEgress)",
				"if err != nil { return nil, false, err }":                                                    "pure ()",
				"if pe.exposureAnalysisFlag { updatePeerXgressClusterWideExposure(policy, src, dst, isIngress) }": "pure ()"}},
		{file: "pkg/netpol/eval/check_eval.go", fn: "isAllowedByANPCapturedRes", lean: "isAllowedByANPCapturedRes",
			sig:   "(anpRes : RuleRes) : Except Err (Bool × Bool)",
			atoms: map[string]string{"k8s.Pass": "RuleRes.pass", "k8s.Allow": "RuleRes.allow", "k8s.Deny": "RuleRes.deny"}, errs: badAction},
		{file: "pkg/netpol/eval/check_eval.go", fn: "PolicyEngine.allowedXgressConnectionByAdminNetpols", lean: "allowedXgressConnectionByAdminNetpols",
			sig:   "(src dst : KPeer) (isIngress : Bool) (protocol port : String) (anps : List ANP) : Except Err (Bool × Bool)", loopElem: "ANP",
			atoms: map[string]string{"pe.sortedAdminNetpols": "anps", "k8s.NotCaptured": "RuleRes.notCaptured"},
			calls: map[string]string{"anp.Selects(dst, true)": "(anpSelects anp dst true)", "anp.Selects(src, false)": "(anpSelects anp src false)",
				"anp.CheckIngressConnAllowed(src, dst, protocol, port)": "(EState.adminCheck anp.ingress src dst protocol port false)",
				"anp.CheckEgressConnAllowed(dst, protocol, port)":       "(EState.adminCheck anp.egress dst dst protocol port false)"},
			retCalls: map[string]string{"isAllowedByANPCapturedRes(res)": "(isAllowedByANPCapturedRes res)"}},
		{file: "pkg/netpol/eval/check_eval.go", fn: "PolicyEngine.allowedXgressConnectionByNetpols", lean: "allowedXgressConnectionByNetpols",
			sig:   "(polsIngress polsEgress : Except Err (List NetPol)) (src dst : KPeer) (isIngress : Bool) (protocol port : String) : Except Err (Bool × Bool)", loopElem: "NetPol",
			atoms: map[string]string{"len(netpols)": "netpols.length"}, locals: []string{"netpols"},
			calls: map[string]string{"policy.IngressAllowedConn(src, protocol, port, dst)": "(npIngressAllowedConn policy src protocol port dst)",
				"policy.EgressAllowedConn(dst, protocol, port)": "(npEgressAllowedConn policy dst protocol port)"},
			stmts: map[string]string{
				"var netpols []*k8s.NetworkPolicy": "pure ()",
				"if isIngress { netpols, err = pe.getPoliciesSelectingPod(dst, netv1.PolicyTypeIngress) } else { netpols, err = pe.getPoliciesSelectingPod(src, netv1.PolicyTypeEgress) }": "let netpols ← (if isIngress then polsIngress else polsEgress)",
				"if err != nil { return false, false, err }": "pure ()"}},
		{file: "pkg/netpol/eval/check_eval.go", fn: "PolicyEngine.allowedXgressConnection", lean: "allowedXgressConnection",
			sig: "(byANPs byNetpols : Except Err (Bool × Bool)) (byDefault : Except Err Bool) : Except Err Bool",
			calls: map[string]string{
				"pe.allowedXgressConnectionByAdminNetpols(src, dst, isIngress, protocol, port)":     "byANPs",
				"pe.allowedXgressConnectionByNetpols(src, dst, isIngress, protocol, port)":          "byNetpols",
				"pe.allowedXgressByBaselineAdminNetpolOrByDefault(src, dst, isIngress, protocol, port)": "byDefault"}},
		{file: "pkg/netpol/eval/check_eval.go", fn: "PolicyEngine.allowedXgressByBaselineAdminNetpolOrByDefault", lean: "allowedXgressByBaselineAdminNetpolOrByDefault",
			sig:   "(hasBANP isIngress : Bool) (selectsDstRes selectsSrcRes : Except Err Bool) (ingressCheck egressCheck : Except Err Bool) : Except Err Bool",
			atoms: map[string]string{"pe.baselineAdminNetpol == nil": "(!hasBANP)"},
			calls: map[string]string{"pe.baselineAdminNetpol.Selects(dst, true)": "selectsDstRes", "pe.baselineAdminNetpol.Selects(src, false)": "selectsSrcRes",
				"pe.baselineAdminNetpol.CheckIngressConnAllowed(src, dst, protocol, port)": "ingressCheck",
				"pe.baselineAdminNetpol.CheckEgressConnAllowed(dst, protocol, port)":       "egressCheck"}},
		{file: "pkg/netpol/eval/resources.go", fn: "PolicyEngine.insertAdminNetworkPolicy", lean: "insertAdminNetworkPolicy",
			sig: "(e : Engine) (a : ANP) : Except Err Engine", muts: []string{"e"}, result: "e", locals: []string{"idx"},
			atoms: map[string]string{"pe.exposureAnalysisFlag": "e.exposure", "pe.adminNetpolsMap[anp.Name]": "(e.anpNames.contains a.name)",
				"(*k8s.AdminNetworkPolicy)(anp).HasValidPriority()": "a.validPriority",
				"pe.sortedAdminNetpols[idx-1].Spec.Priority":        "(e.anps[idx - 1]?.map (·.prio))", "anp.Spec.Priority": "(some a.prio)", "0": "0"},
			errs: map[string]string{"errors.New(netpolerrors.ExposureAnalysisDisabledWithANPs)": ".exposureWithANP",
				"errors.New(netpolerrors.ANPsWithSameNameErr(anp.Name))":                                            ".dupANP",
				"errors.New(netpolerrors.PriorityValueErr(anp.Name, anp.Spec.Priority))":                          ".anpPriority",
				"errors.New(netpolerrors.SamePriorityErr(pe.sortedAdminNetpols[idx-1].Name, anp.Name))":          ".anpPriority"},
			stmts: map[string]string{
				"idx := sort.Search(len(pe.sortedAdminNetpols), func(i int) bool { return pe.sortedAdminNetpols[i].Spec.Priority > anp.Spec.Priority })": "let idx := (e.anps.takeWhile (fun b => !decide (b.prio > a.prio))).length -- sort.Search: the first index whose priority is greater (the list is kept sorted)",
				"pe.adminNetpolsMap[anp.Name] = true":                                    "e := { e with anpNames := e.anpNames ++ [a.name] }",
				"pe.sortedAdminNetpols = append(pe.sortedAdminNetpols, nil)":             "pure ()",
				"copy(pe.sortedAdminNetpols[idx+1:], pe.sortedAdminNetpols[idx:])":       "pure ()",
				"pe.sortedAdminNetpols[idx] = (*k8s.AdminNetworkPolicy)(anp)":            "e := { e with anps := e.anps.take idx ++ [a] ++ e.anps.drop idx }",
				"pe.cache.clear()":                                                       "pure ()"}},
		{file: "pkg/netpol/eval/resources.go", fn: "PolicyEngine.insertBaselineAdminNetworkPolicy", lean: "insertBaselineAdminNetworkPolicy",
			sig:  "(e : Engine) (b : BANP) : Except Err Engine", muts: []string{"e"}, result: "e",
			atoms: map[string]string{"pe.exposureAnalysisFlag": "e.exposure", "pe.baselineAdminNetpol != nil": "e.banp.isSome", "banp.Name": "b.name"},
			errs: map[string]string{"errors.New(netpolerrors.ExposureAnalysisDisabledWithANPs)": ".exposureWithANP",
				"errors.New(netpolerrors.BANPAlreadyExists)": ".banpExists", "errors.New(netpolerrors.BANPNameAssertion)": ".banpName"},
			stmts: map[string]string{"pe.baselineAdminNetpol = (*k8s.BaselineAdminNetworkPolicy)(banp)": "e := { e with banp := some b }",
				"pe.cache.clear()": "pure ()"}},
	}
	var L strings.Builder
	L.WriteString("import Netpol.Model.Cache\n/-! REGENERATED from the Go sources of /repo by /verif/tools/goextract (procs.go) on every run. Do not edit.\n" +
		"Each definition is the statement-by-statement rewriting of one Go function into a `do` block over `Except Err`. -/\nnamespace Netpol.Gen.Procs\nopen Netpol\n\n" +
		"/-- `len(conn.AllowedProtocols)` -/\ndef _root_.Netpol.ConnSet.numProtos (c : ConnSet) : Nat := (Proto.all.filter fun pr => (c.get pr).isSome).length\n\n" +
		"/-- `string(rule.Action)`: the strings of `AdminNetworkPolicyRuleAction` (sigs.k8s.io/network-policy-api; third party) -/\ndef actionString : Action → String\n  | .Allow => \"Allow\"\n  | .Deny => \"Deny\"\n  | .Pass => \"Pass\"\n\n")
	broken := []string{}
	for i := range specs {
		sp := &specs[i]
		fd := funcs(parseFile(repo, sp.file))[sp.fn]
		fail := func(msg string) {
			broken = append(broken, "function "+sp.fn+": "+msg)
			fmt.Fprintf(&L, "/-- UNTRANSLATABLE `%s`: %s -/\ndef %s_untranslatable : Bool := true\n\n", sp.fn, strings.ReplaceAll(msg, "-/", "- /"), sp.lean)
		}
		if fd == nil || fd.Body == nil {
			fail("not found")
			continue
		}
		t := &procTr{sp: sp, decl: map[string]bool{}}
		// parameters of the Go function and the receiver are in scope when the Lean signature binds them
		for _, m := range sp.muts {
			t.decl[m] = true
		}
		for _, m := range sp.locals {
			t.decl[m] = true
		}
		if fd.Recv != nil {
			for _, f := range fd.Recv.List {
				for _, n := range f.Names {
					if strings.Contains(sp.sig, "("+leanIdent(n.Name)+" ") || strings.Contains(sp.sig, " "+leanIdent(n.Name)+" ") {
						t.decl[n.Name] = true
					}
				}
			}
		}
		if fd.Type.Params != nil {
			for _, f := range fd.Type.Params.List {
				for _, n := range f.Names {
					if strings.Contains(sp.sig, "("+leanIdent(n.Name)+" ") || strings.Contains(sp.sig, " "+leanIdent(n.Name)+" ") {
						t.decl[n.Name] = true
					}
				}
			}
		}
		lines, err := t.block(fd.Body.List, "  ")
		if err != nil {
			fail(err.Error())
			continue
		}
		var D strings.Builder
		fmt.Fprintf(&D, "/-- `%s` (%s) -/\ndef %s %s := do\n", sp.fn, sp.file, sp.lean, sp.sig)
		for _, m := range sp.muts {
			fmt.Fprintf(&D, "  let mut %s := %s\n", m, m)
		}
		D.WriteString(strings.Join(lines, "\n") + "\n")
		// a Go function whose last statement is neither a return nor a switch falls off the end
		fallsOff := len(fd.Body.List) == 0
		if n := len(fd.Body.List); n > 0 {
			_, isRet := fd.Body.List[n-1].(*ast.ReturnStmt)
			_, isSw := fd.Body.List[n-1].(*ast.SwitchStmt)
			fallsOff = !isRet && !isSw
		}
		if fallsOff {
			if sp.result == "" {
				fail("falls off the end without a result")
				continue
			}
			D.WriteString("  return " + sp.result + "\n")
		}
		for _, a := range t.aux {
			L.WriteString(a + "\n")
		}
		L.WriteString(D.String() + "\n")
	}
	L.WriteString("/-- what the translator could not regenerate (a broken tie, reported by the check) -/\ndef broken : List String := [")
	L.WriteString(strings.Join(mapStr(broken, leanStr), ", "))
	L.WriteString("]\n\nend Netpol.Gen.Procs\n")
	if err := os.WriteFile(filepath.Join(out, "Procs.lean"), []byte(L.String()), 0o644); err != nil {
		fmt.Fprintln(os.Stderr, err)
		os.Exit(1)
	}
}
