#!/usr/bin/env python3
"""Writes seeded/README.md: one row per seeded change (what it breaks, where, which check caught it and how)."""
import os, json, glob, re
V = os.path.dirname(os.path.dirname(os.path.abspath(__file__)))
rows = []
for d in sorted(glob.glob(os.path.join(V, 'seeded', 'C*-m*')) + glob.glob(os.path.join(V, 'seeded', 'C*-audit-*'))):
    m = json.load(open(os.path.join(d, 'meta.json')))
    vh = m.get('verified_here', {})
    files = sorted(set(re.findall(r'^\+\+\+ b/(\S+)', open(os.path.join(d, 'patch.diff')).read(), re.M)))
    caught = []
    for c, r in sorted(vh.get('checks', {}).items()):
        if r.get('caught'):
            kinds = '; '.join(dict.fromkeys(k for k in r.get('kinds', []) if k))
            nf = any('no-failing-input-found' in l for l in r.get('violation_lines', []))
            caught.append('%s (%s%s)' % (c, kinds or 'K/T broken', ', no-failing-input-found' if nf else ''))
        else:
            caught.append('%s: not caught at this tier/seed' % c)
    what = m.get('what_it_breaks') or m.get('title') or m.get('summary') or m.get('what') or m.get('description') or ''
    what = re.sub(r'\s+', ' ', str(what))[:160]
    ok = vh.get('demo_passes_on_clean_tree') and vh.get('demo_fails_with_patch') and vh.get('existing_suite_passes_with_patch')
    if 'audit' in os.path.basename(d):
        m['note_here'] = 'audit patch (no demonstration test; suite result as reported by the audit)'
    rows.append((os.path.basename(d), ', '.join(os.path.basename(f) for f in files), what, 'yes' if ok else ('suite only' if 'audit' in os.path.basename(d) else 'NO'), '<br>'.join(caught), m.get('note_here', '')))
with open(os.path.join(V, 'seeded', 'README.md'), 'w') as f:
    f.write('# Seeded changes\n\nEach directory: `patch.diff` (applies to /repo HEAD at the time of the run; never committed there), the demonstration '
            '(`*_test.go.txt`), `meta.json` (the author\'s description plus `verified_here`: what was re-run in this sandbox and what the check printed).\n'
            'Re-run one: `tools/seedtest.sh <property> <n> quick` after restoring its scratch worktree, or by hand: `git -C /repo apply seeded/<id>/patch.diff; ./check <property>; git -C /repo checkout -- .`.\n\n')
    f.write('| change | files | what it breaks | verified (demo/suite) | caught by (leg / kind) | note |\n|---|---|---|---|---|---|\n')
    for r in rows:
        f.write('| ' + ' | '.join(x.replace('|', '\\|') for x in r) + ' |\n')
    n = len(rows)
    c = sum(1 for r in rows if 'not caught' not in r[4] and r[4])
    f.write('\n%d changes, %d caught by the check of their property at the quick tier with the default seed.\n' % (n, c))
print('rows', len(rows))
