#!/bin/bash
# Records the fingerprints of the modelled Go functions for /repo's current tree (run after a repair of /repo has landed
# together with its model change): ./check scales its effort when a fingerprint differs from this baseline.
cd "$(dirname "$0")/.." && python3 tools/gen_facts.py /repo lean/Netpol/Gen && cp lean/Netpol/Gen/fingerprints.json fingerprints.base.json && echo baseline updated
