#!/bin/bash
# Builds the correspondence harness from /repo's current working tree with an overlay:
# no file is added to /repo. Output: /verif/.cache/bin/harness
set -e
V=$(cd "$(dirname "$0")" && pwd)   # /verif, or a snapshot of it (vp run)
REPO=${VERIF_REPO:-/repo}
export GOFLAGS=-mod=mod GOPROXY=off GOSUMDB=off GOTOOLCHAIN=local CARGO_NET_OFFLINE=true
BIN=$V/.cache/bin
OVL=$V/.cache/overlay.json
if [ "$REPO" != "/repo" ]; then
  # a scratch tree (seeded-change experiments): separate outputs so that checks of /repo are not disturbed
  TAG=$(echo -n "$REPO" | md5sum | cut -c1-8)
  BIN=$V/.cache/bin-$TAG
  OVL=$V/.cache/overlay-$TAG.json
fi
mkdir -p $BIN
export VERIF_OVL=$OVL
python3 - "$REPO" "$OVL" "$V" <<'PY'
import json, os, sys, glob
repo = sys.argv[1]
ovl = sys.argv[2]
V = sys.argv[3]
rep = {}
for f in glob.glob(V + '/harness/main/*.go'):
    rep[repo + '/pkg/netpol/zz_verifharness/' + os.path.basename(f)] = f
# in-package hooks: harness/hooks/<pkg path with __ for />/<file>.go
for d in glob.glob(V + '/harness/hooks/*'):
    pkg = os.path.basename(d).replace('__', '/')
    for f in glob.glob(d + '/*.go'):
        rep[repo + '/' + pkg + '/zz_verif_' + os.path.basename(f)] = f
json.dump({'Replace': rep}, open(ovl, 'w'), indent=1)
PY
cd $REPO
go build -tags verif -overlay $OVL -o $BIN/harness ./pkg/netpol/zz_verifharness
# the untouched command-line binary (C18: exit status, stdout of the real process)
go build -o $BIN/k8snetpolicy ./cmd/netpolicy
